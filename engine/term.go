package main

// Hash-consed SMT terms with constant folding.
//
// Sorts: Bool, BV(w), Real (float model R+), FP(w) (float model F).
// Real constants are stored as float64 (exact dyadic rationals, or Inf/NaN).
// Concrete float computations are therefore folded with native IEEE
// arithmetic (exactly what the real program does); anything involving a
// symbolic Real is exact real arithmetic in the solver.

import (
	"fmt"
	"math"
	"math/big"
	"strings"
)

type SortKind uint8

const (
	SBool SortKind = iota
	SBV
	SReal
	SFP
)

type Sort struct {
	K SortKind
	W int // bit width for BV/FP
}

var (
	BoolSort = Sort{SBool, 0}
	RealSort = Sort{SReal, 0}
	FP64Sort = Sort{SFP, 64}
	FP32Sort = Sort{SFP, 32}
)

func BVSort(w int) Sort { return Sort{SBV, w} }

func (s Sort) SMT() string {
	switch s.K {
	case SBool:
		return "Bool"
	case SBV:
		return fmt.Sprintf("(_ BitVec %d)", s.W)
	case SReal:
		return "Real"
	case SFP:
		if s.W == 32 {
			return "(_ FloatingPoint 8 24)"
		}
		return "(_ FloatingPoint 11 53)"
	}
	return "?"
}

type Op uint8

const (
	OpConst Op = iota
	OpVar
	OpNot
	OpAnd
	OpOr
	OpIte
	OpEq
	// BV
	OpBVAdd
	OpBVSub
	OpBVMul
	OpBVUDiv
	OpBVSDiv
	OpBVURem
	OpBVSRem
	OpBVAnd
	OpBVOr
	OpBVXor
	OpBVNot
	OpBVNeg
	OpBVShl
	OpBVLshr
	OpBVAshr
	OpBVUlt
	OpBVUle
	OpBVSlt
	OpBVSle
	OpBVExtract // aux = hi<<16|lo
	OpBVZext    // aux = extra bits
	OpBVSext
	OpBVConcat
	// Real
	OpRAdd
	OpRSub
	OpRMul
	OpRDiv
	OpRNeg
	OpRLt
	OpRLe
	OpBV2Real // signed bv -> real
	OpUBV2Real
	OpUF // name in Name, args
	OpRTruncBV // real -> signed bv (truncation toward zero), width in Sort
	// FP (model F)
	OpFPLt
	OpFPLe
	OpFPEq // IEEE equality
	OpFPAbs
	OpFPNeg
	OpFPIsNaN
	OpFPIsInf
	OpFPAdd
	OpFPSub
	OpFPToBV   // reinterpret as bits (via aux var + constraint is avoided: uses UF inverse trick) -- see fpBits
	OpFPFromBV // to_fp from bits
	OpFPMin
	OpFPMax
	OpFPIsNeg
	OpFPCvt // fp -> fp of other width (RNE)
	OpSBV2FP
	OpUBV2FP
)

var opSMT = map[Op]string{
	OpNot: "not", OpAnd: "and", OpOr: "or", OpIte: "ite", OpEq: "=",
	OpBVAdd: "bvadd", OpBVSub: "bvsub", OpBVMul: "bvmul", OpBVUDiv: "bvudiv", OpBVSDiv: "bvsdiv",
	OpBVURem: "bvurem", OpBVSRem: "bvsrem", OpBVAnd: "bvand", OpBVOr: "bvor", OpBVXor: "bvxor",
	OpBVNot: "bvnot", OpBVNeg: "bvneg", OpBVShl: "bvshl", OpBVLshr: "bvlshr", OpBVAshr: "bvashr",
	OpBVUlt: "bvult", OpBVUle: "bvule", OpBVSlt: "bvslt", OpBVSle: "bvsle", OpBVConcat: "concat",
	OpRAdd: "+", OpRSub: "-", OpRMul: "*", OpRDiv: "/", OpRNeg: "-", OpRLt: "<", OpRLe: "<=",
	OpFPLt: "fp.lt", OpFPLe: "fp.leq", OpFPEq: "fp.eq", OpFPAbs: "fp.abs", OpFPNeg: "fp.neg",
	OpFPIsNaN: "fp.isNaN", OpFPIsInf: "fp.isInfinite", OpFPMin: "fp.min", OpFPMax: "fp.max",
	OpFPIsNeg: "fp.isNegative",
}

type Term struct {
	Op   Op
	Sort Sort
	Args []*Term
	U    uint64  // BV const value (masked) / aux
	F    float64 // Real/FP const value
	B    bool
	Name string // var / UF name
	ID   int
}

func (t *Term) IsConst() bool { return t.Op == OpConst }

type TermTable struct {
	realVars int // number of Real-sorted variables created (selects the solver escalation schedule)
	tab    map[string]*Term
	ktab   map[tkey]*Term
	nextID int
	vars   []*Term          // declared variables in order
	ufs    map[string]string // UF name -> declaration
	ufList []string
	// definitional side constraints (e.g. sqrt results); asserted in every query
	axioms []*Term
	fresh  int
}

func NewTermTable() *TermTable {
	return &TermTable{tab: map[string]*Term{}, ktab: map[tkey]*Term{}, ufs: map[string]string{}}
}

type tkey struct {
	op         Op
	k          SortKind
	w          int
	u, fb      uint64
	b          bool
	n          int
	a0, a1, a2 int
	name       string
}

func (tt *TermTable) intern(t Term) *Term {
	if len(t.Args) <= 3 {
		k := tkey{op: t.Op, k: t.Sort.K, w: t.Sort.W, u: t.U, fb: math.Float64bits(t.F), b: t.B, n: len(t.Args), name: t.Name}
		switch len(t.Args) {
		case 3:
			k.a2 = t.Args[2].ID
			fallthrough
		case 2:
			k.a1 = t.Args[1].ID
			fallthrough
		case 1:
			k.a0 = t.Args[0].ID
		}
		if e, ok := tt.ktab[k]; ok {
			return e
		}
		tt.nextID++
		t.ID = tt.nextID
		p := new(Term)
		*p = t
		tt.ktab[k] = p
		return p
	}
	var sb strings.Builder
	fmt.Fprintf(&sb, "%d|%d.%d|%d|%x|%v|%s", t.Op, t.Sort.K, t.Sort.W, t.U, math.Float64bits(t.F), t.B, t.Name)
	for _, a := range t.Args {
		fmt.Fprintf(&sb, ",%d", a.ID)
	}
	k := sb.String()
	if e, ok := tt.tab[k]; ok {
		return e
	}
	tt.nextID++
	t.ID = tt.nextID
	p := new(Term)
	*p = t
	tt.tab[k] = p
	return p
}

func mask(w int) uint64 {
	if w >= 64 {
		return ^uint64(0)
	}
	return (uint64(1) << uint(w)) - 1
}

func signExt(u uint64, w int) int64 {
	if w >= 64 {
		return int64(u)
	}
	sh := uint(64 - w)
	return int64(u<<sh) >> sh
}

// ---- constructors ----

func (tt *TermTable) Bool(b bool) *Term { return tt.intern(Term{Op: OpConst, Sort: BoolSort, B: b}) }
func (tt *TermTable) BV(w int, u uint64) *Term {
	return tt.intern(Term{Op: OpConst, Sort: BVSort(w), U: u & mask(w)})
}
func (tt *TermTable) Real(f float64) *Term {
	if f == 0 {
		f = 0 // fold -0 into +0 in model R
	}
	return tt.intern(Term{Op: OpConst, Sort: RealSort, F: f})
}
func (tt *TermTable) FPConst(w int, f float64) *Term {
	return tt.intern(Term{Op: OpConst, Sort: Sort{SFP, w}, F: f, U: math.Float64bits(f)})
}

func (tt *TermTable) Var(name string, s Sort) *Term {
	n0 := tt.nextID
	t := tt.intern(Term{Op: OpVar, Sort: s, Name: name})
	if tt.nextID != n0 {
		tt.vars = append(tt.vars, t)
		if s.K == SReal {
			tt.realVars++
		}
	}
	return t
}

func (tt *TermTable) Fresh(prefix string, s Sort) *Term {
	tt.fresh++
	return tt.Var(fmt.Sprintf("%s!%d", prefix, tt.fresh), s)
}

func (tt *TermTable) Not(a *Term) *Term {
	if a.IsConst() {
		return tt.Bool(!a.B)
	}
	if a.Op == OpNot {
		return a.Args[0]
	}
	return tt.intern(Term{Op: OpNot, Sort: BoolSort, Args: []*Term{a}})
}

func (tt *TermTable) And(as ...*Term) *Term {
	var out []*Term
	for _, a := range as {
		if a.IsConst() {
			if !a.B {
				return tt.Bool(false)
			}
			continue
		}
		dup := false
		for _, o := range out {
			if o == a {
				dup = true
			}
		}
		if !dup {
			out = append(out, a)
		}
	}
	if len(out) == 0 {
		return tt.Bool(true)
	}
	if len(out) == 1 {
		return out[0]
	}
	return tt.intern(Term{Op: OpAnd, Sort: BoolSort, Args: out})
}

func (tt *TermTable) Or(as ...*Term) *Term {
	var out []*Term
	for _, a := range as {
		if a.IsConst() {
			if a.B {
				return tt.Bool(true)
			}
			continue
		}
		dup := false
		for _, o := range out {
			if o == a {
				dup = true
			}
		}
		if !dup {
			out = append(out, a)
		}
	}
	if len(out) == 0 {
		return tt.Bool(false)
	}
	if len(out) == 1 {
		return out[0]
	}
	return tt.intern(Term{Op: OpOr, Sort: BoolSort, Args: out})
}

func (tt *TermTable) Implies(a, b *Term) *Term { return tt.Or(tt.Not(a), b) }

func (tt *TermTable) Ite(c, a, b *Term) *Term {
	if c.IsConst() {
		if c.B {
			return a
		}
		return b
	}
	if a == b {
		return a
	}
	if a.Sort != b.Sort {
		panic(fmt.Sprintf("ite sort mismatch %v %v", a.Sort, b.Sort))
	}
	if a.Sort.K == SBool {
		if a.IsConst() && b.IsConst() {
			if a.B {
				return c
			}
			return tt.Not(c)
		}
	}
	return tt.intern(Term{Op: OpIte, Sort: a.Sort, Args: []*Term{c, a, b}})
}

func (tt *TermTable) Eq(a, b *Term) *Term {
	if a.Sort != b.Sort {
		panic(fmt.Sprintf("eq sort mismatch %v %v", a.Sort, b.Sort))
	}
	if a == b {
		if a.Sort.K == SFP || (a.Sort.K == SReal && a.IsConst() && math.IsNaN(a.F)) {
			// fall through: structural identity is not IEEE equality for NaN
		} else {
			return tt.Bool(true)
		}
	}
	if a.IsConst() && b.IsConst() {
		switch a.Sort.K {
		case SBool:
			return tt.Bool(a.B == b.B)
		case SBV:
			return tt.Bool(a.U == b.U)
		case SReal:
			return tt.Bool(a.F == b.F)
		}
	}
	if a.Sort.K == SBool {
		if a.IsConst() {
			if a.B {
				return b
			}
			return tt.Not(b)
		}
		if b.IsConst() {
			if b.B {
				return a
			}
			return tt.Not(a)
		}
	}
	if a.Sort.K == SFP {
		if a == b && a.Op != OpConst {
			return tt.Not(tt.intern(Term{Op: OpFPIsNaN, Sort: BoolSort, Args: []*Term{a}}))
		}
		if a.IsConst() && b.IsConst() {
			return tt.Bool(a.F == b.F)
		}
		if a.ID > b.ID {
			a, b = b, a
		}
		return tt.intern(Term{Op: OpFPEq, Sort: BoolSort, Args: []*Term{a, b}})
	}
	if a.ID > b.ID {
		a, b = b, a
	}
	return tt.intern(Term{Op: OpEq, Sort: BoolSort, Args: []*Term{a, b}})
}

// Same: structural/bit identity (SMT "="), usable for FP too.
func (tt *TermTable) Same(a, b *Term) *Term {
	if a == b {
		return tt.Bool(true)
	}
	if a.Sort != b.Sort {
		panic("same sort mismatch")
	}
	if a.IsConst() && b.IsConst() {
		switch a.Sort.K {
		case SBool:
			return tt.Bool(a.B == b.B)
		case SBV:
			return tt.Bool(a.U == b.U)
		case SReal:
			return tt.Bool(a.F == b.F || (math.IsNaN(a.F) && math.IsNaN(b.F)))
		case SFP:
			return tt.Bool(a.U == b.U)
		}
	}
	if a.ID > b.ID {
		a, b = b, a
	}
	return tt.intern(Term{Op: OpEq, Sort: BoolSort, Args: []*Term{a, b}})
}

// ---- BV ----

func (tt *TermTable) bvBin(op Op, a, b *Term) *Term {
	if a.Sort != b.Sort || a.Sort.K != SBV {
		panic(fmt.Sprintf("bv binop sort mismatch %v %v op %d", a.Sort, b.Sort, op))
	}
	w := a.Sort.W
	if a.IsConst() && b.IsConst() {
		x, y := a.U, b.U
		sx, sy := signExt(x, w), signExt(y, w)
		switch op {
		case OpBVAdd:
			return tt.BV(w, x+y)
		case OpBVSub:
			return tt.BV(w, x-y)
		case OpBVMul:
			return tt.BV(w, x*y)
		case OpBVUDiv:
			if y == 0 {
				return tt.BV(w, mask(w))
			}
			return tt.BV(w, x/y)
		case OpBVURem:
			if y == 0 {
				return tt.BV(w, x)
			}
			return tt.BV(w, x%y)
		case OpBVSDiv:
			if sy == 0 {
				if sx >= 0 {
					return tt.BV(w, mask(w))
				}
				return tt.BV(w, 1)
			}
			if sy == -1 {
				return tt.BV(w, uint64(-sx))
			}
			return tt.BV(w, uint64(sx/sy))
		case OpBVSRem:
			if sy == 0 {
				return tt.BV(w, x)
			}
			if sy == -1 {
				return tt.BV(w, 0)
			}
			return tt.BV(w, uint64(sx%sy))
		case OpBVAnd:
			return tt.BV(w, x&y)
		case OpBVOr:
			return tt.BV(w, x|y)
		case OpBVXor:
			return tt.BV(w, x^y)
		case OpBVShl:
			if y >= uint64(w) {
				return tt.BV(w, 0)
			}
			return tt.BV(w, x<<y)
		case OpBVLshr:
			if y >= uint64(w) {
				return tt.BV(w, 0)
			}
			return tt.BV(w, x>>y)
		case OpBVAshr:
			if y >= uint64(w) {
				if sx < 0 {
					return tt.BV(w, mask(w))
				}
				return tt.BV(w, 0)
			}
			return tt.BV(w, uint64(sx>>y))
		}
	}
	// identities
	switch op {
	case OpBVAdd:
		if a.IsConst() && a.U == 0 {
			return b
		}
		if b.IsConst() && b.U == 0 {
			return a
		}
		// (x + c1) + c2
		if b.IsConst() && a.Op == OpBVAdd && a.Args[1].IsConst() {
			return tt.bvBin(OpBVAdd, a.Args[0], tt.BV(w, a.Args[1].U+b.U))
		}
		if a.IsConst() {
			a, b = b, a
		}
	case OpBVSub:
		if b.IsConst() && b.U == 0 {
			return a
		}
		if a == b {
			return tt.BV(w, 0)
		}
		if b.IsConst() {
			return tt.bvBin(OpBVAdd, a, tt.BV(w, -b.U))
		}
	case OpBVMul:
		if a.IsConst() {
			a, b = b, a
		}
		if b.IsConst() {
			if b.U == 0 {
				return b
			}
			if b.U == 1 {
				return a
			}
		}
	case OpBVAnd:
		if a.IsConst() {
			a, b = b, a
		}
		if b.IsConst() {
			if b.U == 0 {
				return b
			}
			if b.U == mask(w) {
				return a
			}
		}
		if a == b {
			return a
		}
	case OpBVOr:
		if a.IsConst() {
			a, b = b, a
		}
		if b.IsConst() {
			if b.U == 0 {
				return a
			}
			if b.U == mask(w) {
				return b
			}
		}
		if a == b {
			return a
		}
	case OpBVXor:
		if a.IsConst() {
			a, b = b, a
		}
		if b.IsConst() && b.U == 0 {
			return a
		}
		if a == b {
			return tt.BV(w, 0)
		}
	case OpBVShl, OpBVLshr, OpBVAshr:
		if b.IsConst() && b.U == 0 {
			return a
		}
	case OpBVUDiv, OpBVSDiv:
		if b.IsConst() && b.U == 1 {
			return a
		}
	}
	return tt.intern(Term{Op: op, Sort: a.Sort, Args: []*Term{a, b}})
}

func (tt *TermTable) BVAdd(a, b *Term) *Term  { return tt.bvBin(OpBVAdd, a, b) }
func (tt *TermTable) BVSub(a, b *Term) *Term  { return tt.bvBin(OpBVSub, a, b) }
func (tt *TermTable) BVMul(a, b *Term) *Term  { return tt.bvBin(OpBVMul, a, b) }
func (tt *TermTable) BVAnd(a, b *Term) *Term  { return tt.bvBin(OpBVAnd, a, b) }
func (tt *TermTable) BVOr(a, b *Term) *Term   { return tt.bvBin(OpBVOr, a, b) }
func (tt *TermTable) BVXor(a, b *Term) *Term  { return tt.bvBin(OpBVXor, a, b) }
func (tt *TermTable) BVShl(a, b *Term) *Term  { return tt.bvBin(OpBVShl, a, b) }
func (tt *TermTable) BVLshr(a, b *Term) *Term { return tt.bvBin(OpBVLshr, a, b) }
func (tt *TermTable) BVAshr(a, b *Term) *Term { return tt.bvBin(OpBVAshr, a, b) }

func (tt *TermTable) BVNot(a *Term) *Term {
	if a.IsConst() {
		return tt.BV(a.Sort.W, ^a.U)
	}
	return tt.intern(Term{Op: OpBVNot, Sort: a.Sort, Args: []*Term{a}})
}
func (tt *TermTable) BVNeg(a *Term) *Term {
	if a.IsConst() {
		return tt.BV(a.Sort.W, -a.U)
	}
	return tt.intern(Term{Op: OpBVNeg, Sort: a.Sort, Args: []*Term{a}})
}

func (tt *TermTable) bvCmp(op Op, a, b *Term) *Term {
	if a.Sort != b.Sort || a.Sort.K != SBV {
		panic(fmt.Sprintf("bv cmp sort mismatch %v %v", a.Sort, b.Sort))
	}
	w := a.Sort.W
	if a.IsConst() && b.IsConst() {
		sx, sy := signExt(a.U, w), signExt(b.U, w)
		switch op {
		case OpBVUlt:
			return tt.Bool(a.U < b.U)
		case OpBVUle:
			return tt.Bool(a.U <= b.U)
		case OpBVSlt:
			return tt.Bool(sx < sy)
		case OpBVSle:
			return tt.Bool(sx <= sy)
		}
	}
	if a == b {
		return tt.Bool(op == OpBVUle || op == OpBVSle)
	}
	return tt.intern(Term{Op: op, Sort: BoolSort, Args: []*Term{a, b}})
}
func (tt *TermTable) BVUlt(a, b *Term) *Term { return tt.bvCmp(OpBVUlt, a, b) }
func (tt *TermTable) BVUle(a, b *Term) *Term { return tt.bvCmp(OpBVUle, a, b) }
func (tt *TermTable) BVSlt(a, b *Term) *Term { return tt.bvCmp(OpBVSlt, a, b) }
func (tt *TermTable) BVSle(a, b *Term) *Term { return tt.bvCmp(OpBVSle, a, b) }

func (tt *TermTable) BVExtract(a *Term, hi, lo int) *Term {
	if lo == 0 && hi == a.Sort.W-1 {
		return a
	}
	if a.IsConst() {
		return tt.BV(hi-lo+1, a.U>>uint(lo))
	}
	return tt.intern(Term{Op: OpBVExtract, Sort: BVSort(hi - lo + 1), Args: []*Term{a}, U: uint64(hi)<<16 | uint64(lo)})
}
func (tt *TermTable) BVZext(a *Term, w int) *Term {
	if w == a.Sort.W {
		return a
	}
	if a.IsConst() {
		return tt.BV(w, a.U)
	}
	return tt.intern(Term{Op: OpBVZext, Sort: BVSort(w), Args: []*Term{a}, U: uint64(w - a.Sort.W)})
}
func (tt *TermTable) BVSext(a *Term, w int) *Term {
	if w == a.Sort.W {
		return a
	}
	if a.IsConst() {
		return tt.BV(w, uint64(signExt(a.U, a.Sort.W)))
	}
	return tt.intern(Term{Op: OpBVSext, Sort: BVSort(w), Args: []*Term{a}, U: uint64(w - a.Sort.W)})
}

func (tt *TermTable) BVConcat(hi, lo *Term) *Term {
	w := hi.Sort.W + lo.Sort.W
	if hi.IsConst() && lo.IsConst() && w <= 64 {
		return tt.BV(w, hi.U<<uint(lo.Sort.W)|lo.U)
	}
	if w > 64 {
		panic(unsupported("bit-vector wider than 64"))
	}
	// concat(extract(x,h,m+1), extract(x,m,l)) = extract(x,h,l)
	if hi.Op == OpBVExtract && lo.Op == OpBVExtract && hi.Args[0] == lo.Args[0] && (hi.U&0xffff) == (lo.U>>16)+1 {
		return tt.BVExtract(hi.Args[0], int(hi.U>>16), int(lo.U&0xffff))
	}
	return tt.intern(Term{Op: OpBVConcat, Sort: BVSort(w), Args: []*Term{hi, lo}})
}

// BVResize converts a to width w (truncate or extend by signedness).
func (tt *TermTable) BVResize(a *Term, w int, signed bool) *Term {
	if w == a.Sort.W {
		return a
	}
	if w < a.Sort.W {
		return tt.BVExtract(a, w-1, 0)
	}
	if signed {
		return tt.BVSext(a, w)
	}
	return tt.BVZext(a, w)
}

// ---- Real ----

func isFinite(f float64) bool { return !math.IsInf(f, 0) && !math.IsNaN(f) }

func (tt *TermTable) rBin(op Op, a, b *Term, f32 bool) *Term {
	if a.Sort.K != SReal || b.Sort.K != SReal {
		panic("real binop on non-real")
	}
	if a.IsConst() && b.IsConst() {
		var r float64
		switch op {
		case OpRAdd:
			r = a.F + b.F
		case OpRSub:
			r = a.F - b.F
		case OpRMul:
			r = a.F * b.F
		case OpRDiv:
			r = a.F / b.F
		}
		if f32 {
			x, y := float32(a.F), float32(b.F)
			switch op {
			case OpRAdd:
				r = float64(x + y)
			case OpRSub:
				r = float64(x - y)
			case OpRMul:
				r = float64(x * y)
			case OpRDiv:
				r = float64(x / y)
			}
		}
		return tt.Real(r)
	}
	// special constants with a symbolic (finite) operand
	for i, c := range []*Term{a, b} {
		if c.IsConst() && !isFinite(c.F) {
			if math.IsNaN(c.F) {
				return c
			}
			switch op {
			case OpRAdd:
				return c
			case OpRSub:
				if i == 0 {
					return c
				}
				return tt.Real(-c.F)
			case OpRDiv:
				if i == 1 {
					return tt.Real(0)
				}
			}
			panic(unsupported("Inf constant times/over symbolic real (sign-dependent)"))
		}
	}
	switch op {
	case OpRAdd:
		if a.IsConst() && a.F == 0 {
			return b
		}
		if b.IsConst() && b.F == 0 {
			return a
		}
		if a.ID > b.ID {
			a, b = b, a
		}
	case OpRSub:
		if b.IsConst() && b.F == 0 {
			return a
		}
		if a.IsConst() && a.F == 0 {
			return tt.RNeg(b)
		}
		if a == b {
			return tt.Real(0)
		}
	case OpRMul:
		if a.IsConst() {
			a, b = b, a
		}
		if b.IsConst() {
			if b.F == 0 {
				return b
			}
			if b.F == 1 {
				return a
			}
			if b.F == -1 {
				return tt.RNeg(a)
			}
		} else if a.ID > b.ID {
			a, b = b, a
		}
	case OpRDiv:
		if b.IsConst() && b.F == 1 {
			return a
		}
		if a.IsConst() && a.F == 0 {
			return a // 0/x (x != 0 is the caller's obligation)
		}
	}
	return tt.intern(Term{Op: op, Sort: RealSort, Args: []*Term{a, b}})
}

func (tt *TermTable) RAdd(a, b *Term) *Term { return tt.rBin(OpRAdd, a, b, false) }
func (tt *TermTable) RSub(a, b *Term) *Term { return tt.rBin(OpRSub, a, b, false) }
func (tt *TermTable) RMul(a, b *Term) *Term { return tt.rBin(OpRMul, a, b, false) }
func (tt *TermTable) RDiv(a, b *Term) *Term { return tt.rBin(OpRDiv, a, b, false) }
func (tt *TermTable) RNeg(a *Term) *Term {
	if a.IsConst() {
		return tt.Real(-a.F)
	}
	if a.Op == OpRNeg {
		return a.Args[0]
	}
	return tt.intern(Term{Op: OpRNeg, Sort: RealSort, Args: []*Term{a}})
}
func (tt *TermTable) RLt(a, b *Term) *Term {
	if a.IsConst() && b.IsConst() {
		return tt.Bool(a.F < b.F)
	}
	if a == b {
		return tt.Bool(false)
	}
	if c, ok := specialCmp(a, b, false); ok {
		return tt.Bool(c)
	}
	return tt.intern(Term{Op: OpRLt, Sort: BoolSort, Args: []*Term{a, b}})
}
func (tt *TermTable) RLe(a, b *Term) *Term {
	if a.IsConst() && b.IsConst() {
		return tt.Bool(a.F <= b.F)
	}
	if a == b {
		return tt.Bool(true)
	}
	if c, ok := specialCmp(a, b, true); ok {
		return tt.Bool(c)
	}
	return tt.intern(Term{Op: OpRLe, Sort: BoolSort, Args: []*Term{a, b}})
}

// comparison of a symbolic finite real with an Inf/NaN constant
func specialCmp(a, b *Term, orEq bool) (bool, bool) {
	if a.IsConst() && !isFinite(a.F) {
		if math.IsNaN(a.F) {
			return false, true
		}
		return a.F < 0, true // -Inf < x ; +Inf < x false
	}
	if b.IsConst() && !isFinite(b.F) {
		if math.IsNaN(b.F) {
			return false, true
		}
		return b.F > 0, true
	}
	return false, false
}

func (tt *TermTable) REq(a, b *Term) *Term {
	if a.IsConst() && b.IsConst() {
		return tt.Bool(a.F == b.F)
	}
	if (a.IsConst() && !isFinite(a.F)) || (b.IsConst() && !isFinite(b.F)) {
		return tt.Bool(false)
	}
	return tt.Eq(a, b)
}

func (tt *TermTable) BV2Real(a *Term, signed bool) *Term {
	if a.IsConst() {
		if signed {
			return tt.Real(float64(signExt(a.U, a.Sort.W)))
		}
		return tt.Real(float64(a.U))
	}
	op := OpBV2Real
	if !signed {
		op = OpUBV2Real
	}
	return tt.intern(Term{Op: op, Sort: RealSort, Args: []*Term{a}})
}

func (tt *TermTable) UF(name string, ret Sort, args ...*Term) *Term {
	if _, ok := tt.ufs[name]; !ok {
		var as []string
		for _, a := range args {
			as = append(as, a.Sort.SMT())
		}
		tt.ufs[name] = fmt.Sprintf("(declare-fun %s (%s) %s)", name, strings.Join(as, " "), ret.SMT())
		tt.ufList = append(tt.ufList, name)
	}
	return tt.intern(Term{Op: OpUF, Sort: ret, Args: args, Name: name})
}

// ---- FP (model F) ----

func (tt *TermTable) fpUn(op Op, s Sort, a *Term) *Term {
	return tt.intern(Term{Op: op, Sort: s, Args: []*Term{a}})
}

// ---- printing ----

func realLit(f float64) string {
	if math.IsNaN(f) || math.IsInf(f, 0) {
		panic(unsupported("non-finite real constant reaches the solver"))
	}
	if f == math.Trunc(f) && math.Abs(f) < 1e15 {
		if f < 0 {
			return fmt.Sprintf("(- %d.0)", int64(-f))
		}
		return fmt.Sprintf("%d.0", int64(f))
	}
	r := new(big.Rat)
	r.SetFloat64(f)
	neg := r.Sign() < 0
	if neg {
		r.Neg(r)
	}
	s := fmt.Sprintf("(/ %s.0 %s.0)", r.Num().String(), r.Denom().String())
	if neg {
		s = "(- " + s + ")"
	}
	return s
}

func fpLit(w int, f float64) string {
	if w == 32 {
		b := math.Float32bits(float32(f))
		return fmt.Sprintf("(fp #b%01b #b%08b #b%023b)", b>>31, (b>>23)&0xff, b&0x7fffff)
	}
	b := math.Float64bits(f)
	return fmt.Sprintf("(fp #b%01b #b%011b #x%013x)", b>>63, (b>>52)&0x7ff, b&0xfffffffffffff)
}

func (t *Term) ref() string {
	switch t.Op {
	case OpConst:
		switch t.Sort.K {
		case SBool:
			if t.B {
				return "true"
			}
			return "false"
		case SBV:
			if t.Sort.W%4 == 0 {
				return fmt.Sprintf("#x%0*x", t.Sort.W/4, t.U)
			}
			return fmt.Sprintf("#b%0*b", t.Sort.W, t.U)
		case SReal:
			return realLit(t.F)
		case SFP:
			return fpLit(t.Sort.W, t.F)
		}
	case OpVar:
		return "|" + t.Name + "|"
	}
	return fmt.Sprintf("t%d", t.ID)
}

// body prints the defining expression of a non-leaf term using refs of args.
func (t *Term) body() string {
	var as []string
	for _, a := range t.Args {
		as = append(as, a.ref())
	}
	j := strings.Join(as, " ")
	switch t.Op {
	case OpBVExtract:
		return fmt.Sprintf("((_ extract %d %d) %s)", t.U>>16, t.U&0xffff, j)
	case OpBVZext:
		return fmt.Sprintf("((_ zero_extend %d) %s)", t.U, j)
	case OpBVSext:
		return fmt.Sprintf("((_ sign_extend %d) %s)", t.U, j)
	case OpBV2Real:
		// signed
		w := t.Args[0].Sort.W
		return fmt.Sprintf("(to_real (ite (bvslt %s #x%0*x) (- (bv2int %s) %s) (bv2int %s)))", j, w/4, 0, j, new(big.Int).Lsh(big.NewInt(1), uint(w)).String(), j)
	case OpUBV2Real:
		return fmt.Sprintf("(to_real (bv2int %s))", j)
	case OpRTruncBV:
		return fmt.Sprintf("((_ int2bv %d) (ite (>= %s 0.0) (to_int %s) (- (to_int (- %s)))))", t.Sort.W, j, j, j)
	case OpUF:
		if len(as) == 0 {
			return t.Name
		}
		return fmt.Sprintf("(%s %s)", t.Name, j)
	case OpFPAdd:
		return fmt.Sprintf("(fp.add RNE %s)", j)
	case OpFPSub:
		return fmt.Sprintf("(fp.sub RNE %s)", j)
	case OpFPToBV:
		panic("OpFPToBV printed directly")
	case OpFPFromBV:
		if t.Sort.W == 32 {
			return fmt.Sprintf("((_ to_fp 8 24) %s)", j)
		}
		return fmt.Sprintf("((_ to_fp 11 53) %s)", j)
	case OpFPCvt:
		if t.Sort.W == 32 {
			return fmt.Sprintf("((_ to_fp 8 24) RNE %s)", j)
		}
		return fmt.Sprintf("((_ to_fp 11 53) RNE %s)", j)
	case OpSBV2FP:
		if t.Sort.W == 32 {
			return fmt.Sprintf("((_ to_fp 8 24) RNE %s)", j)
		}
		return fmt.Sprintf("((_ to_fp 11 53) RNE %s)", j)
	case OpUBV2FP:
		if t.Sort.W == 32 {
			return fmt.Sprintf("((_ to_fp_unsigned 8 24) RNE %s)", j)
		}
		return fmt.Sprintf("((_ to_fp_unsigned 11 53) RNE %s)", j)
	}
	name, ok := opSMT[t.Op]
	if !ok {
		panic(fmt.Sprintf("no smt name for op %d", t.Op))
	}
	return fmt.Sprintf("(%s %s)", name, j)
}

// String renders a term fully (for samples/debugging), depth-limited.
func (t *Term) String() string { return t.str(6) }
func (t *Term) str(d int) string {
	if t.Op == OpConst || t.Op == OpVar {
		if t.Op == OpConst && t.Sort.K == SBV {
			return fmt.Sprintf("%d", signExt(t.U, t.Sort.W))
		}
		if t.Op == OpConst && t.Sort.K == SReal {
			return fmt.Sprintf("%g", t.F)
		}
		if t.Op == OpVar {
			return t.Name
		}
		return t.ref()
	}
	if d == 0 {
		return "…"
	}
	var as []string
	for _, a := range t.Args {
		as = append(as, a.str(d-1))
	}
	name := opSMT[t.Op]
	if t.Op == OpUF {
		name = t.Name
	}
	if name == "" {
		name = fmt.Sprintf("op%d", t.Op)
	}
	return "(" + name + " " + strings.Join(as, " ") + ")"
}

type unsupportedErr struct{ msg string }

func unsupported(format string, a ...interface{}) unsupportedErr {
	return unsupportedErr{fmt.Sprintf(format, a...)}
}
