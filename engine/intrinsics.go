package main

import (
	"fmt"
	"go/token"
	"go/types"
	"strings"

	"golang.org/x/tools/go/ssa"
)

const tokenLSS = token.LSS

func (w *Worker) declareInput(name string, s Sort, kind string) *Term {
	t := w.tt.Var("in."+name, s)
	if !w.inputSet[name] {
		w.inputSet[name] = true
		w.inputs = append(w.inputs, InputVar{Name: name, T: t, Kind: kind, W: s.W})
	}
	return t
}

func (w *Worker) concStr(v Value, what string) string {
	s, ok := v.(StrV)
	if !ok || s.Sym != nil {
		panic(unsupported("%s must be a concrete string", what))
	}
	return s.S
}

func (w *Worker) concArg(v Value, what string) int64 {
	t := v.(*Term)
	if !t.IsConst() {
		c := w.concretize(t, what)
		return signExt(c.U, c.Sort.W)
	}
	return signExt(t.U, t.Sort.W)
}

func (w *Worker) floatSort(f32 bool) Sort {
	if w.isF() {
		return Sort{SFP, fpW(f32)}
	}
	return RealSort
}

func (w *Worker) rangeAssume(v *Term, lo, hi *Term) {
	tt := w.tt
	w.assume(tt.And(tt.BVSle(lo, v), tt.BVSle(v, hi)))
}

// intrinsic handles calls to verif* functions declared in the harness runtime.
func (w *Worker) intrinsic(fn *ssa.Function, args []Value) (Value, bool) {
	name := fn.Name()
	if !strings.HasPrefix(name, "verif") {
		return nil, false
	}
	if i := strings.IndexByte(name, '['); i >= 0 {
		name = name[:i]
	}
	tt := w.tt
	switch name {
	case "verifChoose":
		n := w.concStr(args[0], "verifChoose name")
		lo, hi := w.concArg(args[1], "choose lo"), w.concArg(args[2], "choose hi")
		return tt.BV(64, uint64(w.choose(n, lo, hi))), true
	case "verifParam":
		n := w.concStr(args[0], "verifParam name")
		if v, ok := currentParams[n]; ok {
			return tt.BV(64, uint64(int64(v))), true
		}
		return args[1], true
	case "verifInt":
		n := w.concStr(args[0], "verifInt name")
		v := w.declareInput(n, BVSort(64), "int")
		w.rangeAssume(v, args[1].(*Term), args[2].(*Term))
		return v, true
	case "verifInt64":
		return w.declareInput(w.concStr(args[0], "name"), BVSort(64), "int"), true
	case "verifUint64":
		return w.declareInput(w.concStr(args[0], "name"), BVSort(64), "uint"), true
	case "verifUint32":
		return w.declareInput(w.concStr(args[0], "name"), BVSort(32), "uint"), true
	case "verifByte":
		return w.declareInput(w.concStr(args[0], "name"), BVSort(8), "byte"), true
	case "verifBool":
		return w.declareInput(w.concStr(args[0], "name"), BoolSort, "bool"), true
	case "verifFloat":
		return w.declareInput(w.concStr(args[0], "name"), w.floatSort(false), "float"), true
	case "verifFloat32":
		return w.declareInput(w.concStr(args[0], "name"), w.floatSort(true), "float32"), true
	case "verifFloats":
		n := w.concStr(args[0], "name")
		k := int(w.concArg(args[1], "verifFloats length"))
		sl := w.newSlice(types.Typ[types.Float64], k, k)
		for i := 0; i < k; i++ {
			sl.B.Cells[i] = w.declareInput(fmt.Sprintf("%s[%d]", n, i), w.floatSort(false), "float")
		}
		return sl, true
	case "verifFloat32s":
		n := w.concStr(args[0], "name")
		k := int(w.concArg(args[1], "verifFloat32s length"))
		sl := w.newSlice(types.Typ[types.Float32], k, k)
		for i := 0; i < k; i++ {
			sl.B.Cells[i] = w.declareInput(fmt.Sprintf("%s[%d]", n, i), w.floatSort(true), "float32")
		}
		return sl, true
	case "verifComplexes":
		n := w.concStr(args[0], "name")
		k := int(w.concArg(args[1], "verifComplexes length"))
		sl := w.newSlice(types.Typ[types.Complex128], k, k)
		for i := 0; i < k; i++ {
			sl.B.Cells[i] = ComplexV{w.declareInput(fmt.Sprintf("%s[%d].re", n, i), w.floatSort(false), "float"),
				w.declareInput(fmt.Sprintf("%s[%d].im", n, i), w.floatSort(false), "float")}
		}
		return sl, true
	case "verifComplex64s":
		n := w.concStr(args[0], "name")
		k := int(w.concArg(args[1], "verifComplex64s length"))
		sl := w.newSlice(types.Typ[types.Complex64], k, k)
		for i := 0; i < k; i++ {
			sl.B.Cells[i] = ComplexV{w.declareInput(fmt.Sprintf("%s[%d].re", n, i), w.floatSort(true), "float32"),
				w.declareInput(fmt.Sprintf("%s[%d].im", n, i), w.floatSort(true), "float32")}
		}
		return sl, true
	case "verifBytes":
		n := w.concStr(args[0], "name")
		k := int(w.concArg(args[1], "verifBytes length"))
		sl := w.newSlice(types.Typ[types.Uint8], k, k)
		for i := 0; i < k; i++ {
			sl.B.Cells[i] = w.declareInput(fmt.Sprintf("%s[%d]", n, i), BVSort(8), "byte")
		}
		return sl, true
	case "verifString":
		n := w.concStr(args[0], "name")
		k := int(w.concArg(args[1], "verifString length"))
		bs := make([]*Term, k)
		for i := 0; i < k; i++ {
			bs[i] = w.declareInput(fmt.Sprintf("%s[%d]", n, i), BVSort(8), "byte")
		}
		if k == 0 {
			return StrV{}, true
		}
		return StrV{Sym: bs}, true
	case "verifInts":
		n := w.concStr(args[0], "name")
		k := int(w.concArg(args[1], "verifInts length"))
		sl := w.newSlice(types.Typ[types.Int], k, k)
		for i := 0; i < k; i++ {
			v := w.declareInput(fmt.Sprintf("%s[%d]", n, i), BVSort(64), "int")
			w.rangeAssume(v, args[2].(*Term), args[3].(*Term))
			sl.B.Cells[i] = v
		}
		return sl, true
	case "verifUint64s":
		n := w.concStr(args[0], "name")
		k := int(w.concArg(args[1], "verifUint64s length"))
		sl := w.newSlice(types.Typ[types.Uint64], k, k)
		for i := 0; i < k; i++ {
			sl.B.Cells[i] = w.declareInput(fmt.Sprintf("%s[%d]", n, i), BVSort(64), "uint")
		}
		return sl, true
	case "verifSetLen":
		// verifSetLen(s []T, n int) []T : same backing, length n (0<=n<=cap assumed)
		s := w.concGeom(args[0].(SliceV))
		n := args[1].(*Term)
		w.assume(tt.And(tt.BVSle(tt.BV(64, 0), n), tt.BVSle(n, tt.BV(64, uint64(s.Cap)))))
		if s.Nil {
			return s, true
		}
		return SliceV{B: s.B, Off: s.Off, Len: n, Cap: s.Cap}, true
	case "verifAssume":
		w.assume(args[0].(*Term))
		return nil, true
	case "verifAssert":
		w.assertObl(args[0].(*Term), w.concStr(args[1], "assert message"))
		return nil, true
	case "verifAssertEqF":
		a, b := args[0].(*Term), args[1].(*Term)
		var c *Term
		if w.isF() {
			c = tt.Same(a, b)
		} else {
			c = w.fEq(a, b)
		}
		w.assertObl(c, w.concStr(args[2], "assert message"))
		return nil, true
	case "verifAssertEqC":
		a, b := args[0].(ComplexV), args[1].(ComplexV)
		var c *Term
		if w.isF() {
			c = tt.And(tt.Same(a.Re, b.Re), tt.Same(a.Im, b.Im))
		} else {
			c = tt.And(w.fEq(a.Re, b.Re), w.fEq(a.Im, b.Im))
		}
		w.assertObl(c, w.concStr(args[2], "assert message"))
		return nil, true
	case "verifSame":
		return w.sameVal(args[0], args[1]), true
	case "verifAnd":
		return tt.And(args[0].(*Term), args[1].(*Term)), true
	case "verifOr":
		return tt.Or(args[0].(*Term), args[1].(*Term)), true
	case "verifImplies":
		return tt.Implies(args[0].(*Term), args[1].(*Term)), true
	case "verifIff":
		return tt.Eq(args[0].(*Term), args[1].(*Term)), true
	case "verifNot":
		return tt.Not(args[0].(*Term)), true
	case "verifIteInt", "verifIteF":
		return tt.Ite(args[0].(*Term), args[1].(*Term), args[2].(*Term)), true
	case "verifConcrete":
		return w.concretize(args[0].(*Term), "verifConcrete"), true
	case "verifReach":
		w.stats.Reached[w.concStr(args[0], "label")]++
		return nil, true
	case "verifCatch":
		return w.catch(args[0]), true
	case "verifMerge":
		w.cfg.Merge = args[0].(*Term).B
		return nil, true
	case "verifNote":
		w.stats.Stubs["harness note: "+w.concStr(args[0], "note")]++
		return nil, true
	case "verifStubFunc":
		if w.stubs == nil {
			w.stubs = map[string]Value{}
		}
		n := w.concStr(args[0], "stub target")
		iv := args[1].(IfaceV)
		w.stubs[n] = iv.V
		w.stats.Stubs["harness stub replaces "+n]++
		return nil, true
	case "verifTask":
		return tt.BV(64, uint64(w.curTask)), true
	case "verifInEngine":
		return tt.Bool(true), true
	case "verifSched":
		w.schedOn(int(w.concArg(args[0], "verifSched choices")))
		return nil, true
	case "verifSchedPreempt":
		if w.sched == nil {
			panic(unsupported("verifSchedPreempt before verifSched"))
		}
		w.sched.preempt = args[0].(*Term).B
		return nil, true
	case "verifSchedDrain":
		return tt.BV(64, uint64(w.schedDrain())), true
	case "verifDivZeroPrune":
		w.cfg.DivZeroPrune = args[0].(*Term).B
		return nil, true
	case "verifSymSlices":
		w.cfg.SymSlices = args[0].(*Term).B
		return nil, true
	case "verifSliceOff":
		s := args[0].(SliceV)
		if s.SOff != nil {
			return s.SOff, true
		}
		return tt.BV(64, uint64(s.Off)), true
	case "verifObserveInt", "verifObserveF", "verifObserveBool", "verifObserveStr":
		w.observes = append(w.observes, obsRec{w.concStr(args[0], "observation name"), args[1]})
		return nil, true
	case "verifIsSym":
		t, ok := args[0].(*Term)
		return tt.Bool(ok && !t.IsConst()), true
	case "verifAbsF":
		return w.fAbs(args[0].(*Term)), true
	case "verifBackingID":
		s := args[0].(SliceV)
		if s.B == nil {
			return tt.BV(64, 0), true
		}
		return tt.BV(64, uint64(s.B.ID)), true
	}
	if fn.Blocks != nil {
		return nil, false // harness helper that merely shares the prefix
	}
	panic(unsupported("unknown intrinsic %s", name))
}

func (w *Worker) sameVal(a, b Value) *Term {
	tt := w.tt
	switch x := a.(type) {
	case *Term:
		return tt.Same(x, b.(*Term))
	case ComplexV:
		y := b.(ComplexV)
		return tt.And(tt.Same(x.Re, y.Re), tt.Same(x.Im, y.Im))
	}
	panic(unsupported("verifSame on %T", a))
}

// catch runs f and reports (panicked, runtimeFault, message).
func (w *Worker) catch(f Value) Value {
	tt := w.tt
	var res Value
	func() {
		defer func() {
			if r := recover(); r != nil {
				tp, ok := r.(targetPanic)
				if !ok {
					panic(r)
				}
				res = TupleV{tt.Bool(true), tt.Bool(tp.runtime), StrV{S: w.panicMessage(tp)}}
			}
		}()
		w.callValue(f, nil)
		res = TupleV{tt.Bool(false), tt.Bool(false), StrV{}}
	}()
	return res
}
