package main

import (
	"sync"
	"bytes"
	"encoding/json"
	"fmt"
	"os"
	"os/exec"
	"path/filepath"
	"sort"
	"strings"
	"time"
)

// extra tape fields filled in before writing
type tapeExtra struct {
	Pkg    string         `json:"pkg"`
	Tags   string         `json:"tags"`
	Model  string         `json:"model"`
	Params map[string]int `json:"params"`
}

func (t *Tape) complete(spec RunSpec, l *Loaded) {
	t.Pkg = spec.Pkg
	t.Tags = spec.Tags
	t.Model = spec.Model
	if t.Model == "" {
		t.Model = "R"
	}
	t.Params = copyParams(currentParams)
}

type ReplayResult struct {
	Reproduced bool
	Clean      bool
	Summary    string
	Output     string
}

type replayBin struct {
	dir string
	bin string
	err string
}

var (
	replayBins   = map[string]*replayBin{}
	replayBinsMu sync.Mutex
)

// cleanupReplayBins removes the cached native test binaries.
func cleanupReplayBins() {
	replayBinsMu.Lock()
	defer replayBinsMu.Unlock()
	for k, rb := range replayBins {
		os.RemoveAll(rb.dir)
		delete(replayBins, k)
	}
}

// buildReplayBin compiles the package's test binary (real code + harness
// overlay + generated replay test) once per (pkg, tags).
func buildReplayBin(pkg, tags string, race bool) *replayBin {
	replayBinsMu.Lock()
	defer replayBinsMu.Unlock()
	key := pkg + "|" + tags
	if race {
		key += "|race"
	}
	if rb, ok := replayBins[key]; ok {
		return rb
	}
	rb := &replayBin{}
	replayBins[key] = rb
	tmp, err := os.MkdirTemp("/var/tmp", "gosmt-replay-")
	if err != nil {
		rb.err = err.Error()
		return rb
	}
	rb.dir = tmp
	ov, pkgName, err := harnessOverlay(repoRoot, filepath.Join(verifRoot, "harness"), pkg)
	if err != nil {
		rb.err = err.Error()
		return rb
	}
	names := harnessNames(ov)
	var sb strings.Builder
	fmt.Fprintf(&sb, "package %s\n\nimport (\n\t\"fmt\"\n\t\"testing\"\n)\n\nfunc TestVerifReplay(t *testing.T) {\n\tfns := map[string]func(){\n", pkgName)
	for _, n := range names {
		fmt.Fprintf(&sb, "\t\t%q: %s,\n", n, n)
	}
	sb.WriteString("\t}\n\tfails, err := verifRunReplay(fns)\n\tif err != \"\" {\n\t\tfmt.Println(\"VERIF-REPLAY-ERROR:\", err)\n\t\treturn\n\t}\n\tif len(fails) == 0 {\n\t\tfmt.Println(\"VERIF-REPLAY-CLEAN\")\n\t} else {\n\t\tfmt.Println(\"VERIF-REPLAY-FAILED\", len(fails))\n\t}\n}\n")
	repl := map[string]string{}
	i := 0
	for vp, content := range ov {
		rp := filepath.Join(tmp, fmt.Sprintf("f%d.go", i))
		i++
		os.WriteFile(rp, content, 0o644)
		repl[vp] = rp
	}
	tp := filepath.Join(tmp, "replay_test.go")
	os.WriteFile(tp, []byte(sb.String()), 0o644)
	repl[filepath.Join(repoRoot, pkg, "zz_verif_replay_test.go")] = tp
	ob, _ := json.Marshal(map[string]interface{}{"Replace": repl})
	ovp := filepath.Join(tmp, "overlay.json")
	os.WriteFile(ovp, ob, 0o644)
	bin := filepath.Join(tmp, "replay.test")
	bargs := []string{"test", "-c", "-o", bin, "-tags=" + tags, "-vet=off", "-overlay", ovp}
	if race {
		// goroutine harnesses: the native run is made under the race detector
		bargs = append(bargs, "-race")
	}
	build := exec.Command("go", append(bargs, "./"+pkg)...)
	build.Dir = repoRoot
	build.Env = goEnv()
	var out bytes.Buffer
	build.Stdout = &out
	build.Stderr = &out
	if err := build.Run(); err != nil {
		rb.err = "native replay build failed: " + truncate(out.String(), 600)
		return rb
	}
	rb.bin = bin
	return rb
}

// replayTape runs the harness natively (real build of /repo + overlay) on the
// tape and reports whether an assertion failed or a panic escaped.
func replayTape(l *Loaded, spec RunSpec, t *Tape) ReplayResult {
	rb := buildReplayBin(t.Pkg, t.Tags, t.Sched)
	if rb.err != "" {
		return ReplayResult{Summary: rb.err}
	}
	tb, _ := json.Marshal(t)
	tf, err := os.CreateTemp(rb.dir, "tape-*.json")
	if err != nil {
		return ReplayResult{Summary: err.Error()}
	}
	tapePath := tf.Name()
	tf.Write(tb)
	tf.Close()
	defer os.Remove(tapePath)
	var out bytes.Buffer
	tmo := "300s"
	if t.Sched {
		tmo = "60s" // a deadlock shows as a hang
	}
	cmd := exec.Command(rb.bin, "-test.run", "^TestVerifReplay$", "-test.v", "-test.timeout", tmo)
	cmd.Dir = rb.dir
	if st, err := os.Stat(filepath.Join(repoRoot, t.Pkg)); err == nil && st.IsDir() {
		cmd.Dir = filepath.Join(repoRoot, t.Pkg)
	}
	cmd.Env = append(goEnv(), "VERIF_TAPE="+tapePath)
	cmd.Stdout = &out
	cmd.Stderr = &out
	done := make(chan error, 1)
	go func() { done <- cmd.Run() }()
	select {
	case <-done:
	case <-time.After(400 * time.Second):
		cmd.Process.Kill()
		return ReplayResult{Summary: "native replay timed out"}
	}
	o := out.String()
	rr := ReplayResult{Output: o}
	switch {
	case strings.Contains(o, "VERIF-REPLAY-ERROR"):
		rr.Summary = "replay error: " + firstLineWith(o, "VERIF-REPLAY-ERROR")
	case t.Sched && strings.Contains(o, "WARNING: DATA RACE"):
		rr.Reproduced = true
		rr.Summary = "race detector: " + firstLineWith(o, "WARNING: DATA RACE")
	case t.Sched && (strings.Contains(o, "test timed out") || strings.Contains(o, "all goroutines are asleep")):
		rr.Reproduced = true
		rr.Summary = "native run does not terminate (deadlock): " + firstLineWith(o, "panic:")
	case strings.Contains(o, "VERIF-ASSERT-FAILED") || strings.Contains(o, "VERIF-UNCAUGHT-PANIC"):
		rr.Reproduced = true
		rr.Summary = firstLineWith(o, "VERIF-ASSERT-FAILED")
		if rr.Summary == "" {
			rr.Summary = firstLineWith(o, "VERIF-UNCAUGHT-PANIC")
		}
	case strings.Contains(o, "VERIF-REPLAY-CLEAN"):
		rr.Clean = true
		rr.Summary = "native run clean"
	default:
		if strings.Contains(o, "panic:") || strings.Contains(o, "fatal error:") {
			rr.Reproduced = true
			rr.Summary = "native crash: " + firstLineWith(o, "panic:")
		} else {
			rr.Summary = "native replay did not run: " + truncate(o, 400)
		}
	}
	return rr
}

// Witness is a completed engine path with a model, used to validate the
// translator: the native run on the same inputs must be clean and must
// observe the same values.
type Witness struct {
	Tape   *Tape
	Expect map[string]string
	Case   string
}

// checkWitness runs the witness natively and compares observations.
func checkWitness(spec RunSpec, wt Witness) (ok bool, detail string) {
	rr := replayTape(nil, spec, wt.Tape)
	if !rr.Clean {
		return false, "native run of an engine-verified path is not clean: " + rr.Summary
	}
	got := map[string]string{}
	for _, l := range strings.Split(rr.Output, "\n") {
		if strings.HasPrefix(l, "VERIF-OBS ") {
			kv := strings.SplitN(strings.TrimPrefix(l, "VERIF-OBS "), "=", 2)
			if len(kv) == 2 {
				got[kv[0]] = strings.TrimSpace(kv[1])
			}
		}
	}
	for k, want := range wt.Expect {
		g, present := got[k]
		if !present {
			return false, fmt.Sprintf("observation %s missing natively", k)
		}
		if !obsEqual(want, g) {
			return false, fmt.Sprintf("observation %s: engine %s, native %s", k, want, g)
		}
	}
	return true, ""
}

func obsEqual(want, got string) bool {
	if want == got {
		return true
	}
	var a, b float64
	if _, err := fmt.Sscanf(want, "%g", &a); err != nil {
		return false
	}
	if _, err := fmt.Sscanf(got, "%g", &b); err != nil {
		return false
	}
	if a == b {
		return true
	}
	d := a - b
	if d < 0 {
		d = -d
	}
	m := a
	if m < 0 {
		m = -m
	}
	if b > m {
		m = b
	} else if -b > m {
		m = -b
	}
	return d <= 1e-9*m+1e-300
}

func firstLineWith(s, sub string) string {
	for _, l := range strings.Split(s, "\n") {
		if strings.Contains(l, sub) {
			return strings.TrimSpace(l)
		}
	}
	return ""
}

func truncate(s string, n int) string {
	if len(s) > n {
		return s[:n] + "…"
	}
	return s
}

func harnessNames(ov map[string][]byte) []string {
	var names []string
	for p, b := range ov {
		if strings.HasSuffix(p, "zz_verif_rt.go") {
			continue
		}
		for _, line := range strings.Split(string(b), "\n") {
			if strings.HasPrefix(line, "func Verif") {
				rest := strings.TrimPrefix(line, "func ")
				if i := strings.Index(rest, "("); i > 0 && strings.HasPrefix(rest[i:], "()") {
					names = append(names, rest[:i])
				}
			}
		}
	}
	sort.Strings(names)
	return names
}

func cmdReplay(args []string) int {
	if len(args) < 1 {
		fmt.Fprintln(os.Stderr, "usage: gosmt replay <tape.json>")
		return 2
	}
	b, err := os.ReadFile(args[0])
	if err != nil {
		fmt.Fprintln(os.Stderr, err)
		return 2
	}
	var t Tape
	if err := json.Unmarshal(b, &t); err != nil {
		fmt.Fprintln(os.Stderr, err)
		return 2
	}
	currentParams = t.Params
	rr := replayTape(nil, RunSpec{Pkg: t.Pkg, Tags: t.Tags, Model: t.Model}, &t)
	fmt.Println(rr.Output)
	fmt.Printf("replay: reproduced=%v clean=%v %s\n", rr.Reproduced, rr.Clean, rr.Summary)
	if rr.Reproduced {
		return 1
	}
	return 0
}
