package main

// Cooperative goroutine scheduler with happens-before race detection.
//
// Off by default (then `go f()` is sequentialised: run to completion at the
// spawn point, which is what the Dgemm block-ownership harness relies on).
// A harness turns it on with verifSched(k): from then on every `go` statement
// creates a task with its own interpreter stack (a host goroutine; exactly one
// task runs at any time, the baton is passed explicitly), channel operations,
// select, sync.Mutex/RWMutex/WaitGroup/Once block and wake as in Go, and
//
//   * which runnable task continues when the running one blocks or exits, and
//     which ready case a select takes, are DECISIONS of the exploration (like
//     branch sides). The default is round robin / the first ready case; all
//     schedules that deviate from the default at most k times (anywhere in
//     the run) are explored - k is the stated schedule bound (delay bounding);
//   * every load and store of a heap cell is checked against vector clocks
//     (fork, channel send->receive, k-th receive -> (k+cap)-th send, close ->
//     receive, unlock -> lock, Done -> Wait, Once): two accesses to the same
//     cell by different tasks, at least one a write, that are not ordered by
//     happens-before are reported as a data race, on every explored path and
//     for all values of the symbolic inputs of that path;
//   * a state in which no task can run while some are blocked is reported as a
//     deadlock when the main task is among them, and as leaked goroutines
//     (verifSchedDrain) otherwise.

import (
	"fmt"
	"go/types"
	"sort"
	"strings"

	"golang.org/x/tools/go/ssa"
)

type vclock map[int]int

func (v vclock) copy() vclock {
	r := make(vclock, len(v))
	for k, x := range v {
		r[k] = x
	}
	return r
}

func (v vclock) join(o vclock) {
	for k, x := range o {
		if x > v[k] {
			v[k] = x
		}
	}
}

const (
	taskRunnable = iota
	taskBlocked
	taskDone
)

type gTask struct {
	id     int
	state  int
	wake   func() bool
	why    string
	resume chan struct{}
	vc     vclock
	// interpreter state saved while another task runs
	depth         int
	callStack     []*ssa.Function
	recoverFrames []*frame
	started       bool
	fnName        string
}

type syncObj struct {
	locked  bool
	readers int
	counter int
	vc      vclock
	done    bool
}

type shadowCell struct {
	wTask, wClock int
	wPos          []*ssa.Function
	reads         map[int]int
	rPos          map[int][]*ssa.Function
}

type scheduler struct {
	tasks      []*gTask
	cur        *gTask
	main       *gTask
	abort      interface{}
	killing    bool
	choices    int
	maxChoices int
	syncs      map[*Value]*syncObj
	shadow     map[*Value]*shadowCell
	raceSeen   map[string]bool
	preempt    bool
	exited     chan struct{}
}

type chanItem struct {
	v     Value
	vc    vclock
	taken *bool
}

func (w *Worker) schedOn(maxChoices int) {
	if w.sched != nil {
		w.sched.maxChoices = maxChoices
		return
	}
	if w.merging > 0 {
		panic(mergeAbort{"scheduler inside merge"})
	}
	w.schedUsed = true
	m := &gTask{id: 0, resume: make(chan struct{}), vc: vclock{0: 1}, started: true, fnName: "main"}
	w.sched = &scheduler{tasks: []*gTask{m}, cur: m, main: m, maxChoices: maxChoices,
		syncs: map[*Value]*syncObj{}, shadow: map[*Value]*shadowCell{}, raceSeen: map[string]bool{}, exited: make(chan struct{})}
	w.stats.Stubs[fmt.Sprintf("goroutines: cooperative scheduler, all schedules with at most %d deviations from round-robin/first-ready explored; happens-before race detection on heap cells", maxChoices)]++
}

// schedDecide picks one of n candidates. Candidate 0 is the default (round
// robin after the current task / first ready select case). A path may deviate
// from the default at most maxChoices times (delay-bounded scheduling): while
// deviations remain, every choice point is a recorded decision whose
// alternatives are all explored; afterwards the default is taken.
func (w *Worker) schedDecide(n int) int {
	s := w.sched
	if n <= 1 {
		return 0
	}
	if s.choices >= s.maxChoices {
		return 0
	}
	if d, ok := w.nextPrefix('s'); ok {
		if d.Val != 0 {
			s.choices++
		}
		return int(d.Val)
	}
	for v := n - 1; v >= 1; v-- {
		w.forkJob(Decision{'s', int64(v)})
	}
	w.trail = append(w.trail, Decision{'s', 0})
	return 0
}

func (w *Worker) spawnSched(fn Value, args []Value) {
	s := w.sched
	if w.merging > 0 {
		panic(mergeAbort{"go inside merge"})
	}
	w.taskSeq++
	t := &gTask{id: w.taskSeq, resume: make(chan struct{}), state: taskRunnable}
	switch f := fn.(type) {
	case *ssa.Function:
		t.fnName = f.String()
	case *ClosureV:
		t.fnName = f.Fn.String()
	}
	cur := s.cur
	t.vc = cur.vc.copy()
	t.vc[t.id] = 1
	cur.vc[cur.id]++
	s.tasks = append(s.tasks, t)
	if len(s.tasks) > 64 {
		panic(budgetErr{"more than 64 goroutines on one path"})
	}
	go func() {
		<-t.resume
		t.started = true
		defer func() {
			r := recover()
			t.state = taskDone
			if s.killing {
				s.exited <- struct{}{}
				return
			}
			if r != nil {
				s.abort = r
			}
			var next *gTask
			if s.abort != nil {
				next = s.main
			} else {
				next = w.pickNext()
				if next == nil {
					// nobody can run: the main task is blocked for ever
					s.abort = w.deadlockPanic()
					next = s.main
				}
			}
			w.switchTo(next)
		}()
		if s.killing {
			panic(pathEnd{"task killed"})
		}
		w.callValue(fn, args)
	}()
}

// switchTo hands the baton to next and (unless the caller is finished) waits
// until it is handed back.
func (w *Worker) switchTo(next *gTask) {
	s := w.sched
	cur := s.cur
	if next == cur {
		return
	}
	cur.depth, cur.callStack, cur.recoverFrames = w.depth, w.callStack, w.recoverFrames
	s.cur = next
	w.depth, w.callStack, w.recoverFrames = next.depth, next.callStack, next.recoverFrames
	w.curTask = next.id
	next.resume <- struct{}{}
	if cur.state == taskDone {
		return
	}
	<-cur.resume
	if s.killing {
		panic(pathEnd{"task killed"})
	}
	if cur == s.main && s.abort != nil {
		e := s.abort
		s.abort = nil
		panic(e)
	}
}

// candidates lists the tasks that could run now, round robin after the
// current one.
func (w *Worker) candidates(includeCur bool) []*gTask {
	s := w.sched
	var c []*gTask
	n := len(s.tasks)
	start := 0
	for i, t := range s.tasks {
		if t == s.cur {
			start = i
		}
	}
	for k := 1; k <= n; k++ {
		t := s.tasks[(start+k)%n]
		if t == s.cur && !includeCur {
			continue
		}
		switch t.state {
		case taskRunnable:
			c = append(c, t)
		case taskBlocked:
			if t.wake != nil && t.wake() {
				c = append(c, t)
			}
		}
	}
	return c
}

func (w *Worker) pickNext() *gTask {
	c := w.candidates(false)
	if len(c) == 0 {
		return nil
	}
	return c[w.schedDecide(len(c))]
}

func (w *Worker) deadlockPanic() targetPanic {
	var parts []string
	for _, t := range w.sched.tasks {
		if t.state == taskBlocked {
			parts = append(parts, fmt.Sprintf("task %d (%s) blocked on %s", t.id, t.fnName, t.why))
		}
	}
	msg := "all goroutines are asleep - deadlock! " + strings.Join(parts, "; ")
	return targetPanic{v: StrV{S: msg}, runtime: true, msg: msg}
}

// blockUntil suspends the current task until pred holds.
func (w *Worker) blockUntil(pred func() bool, why string) {
	s := w.sched
	for !pred() {
		if w.merging > 0 {
			panic(mergeAbort{"blocking operation inside merge"})
		}
		cur := s.cur
		cur.state, cur.wake, cur.why = taskBlocked, pred, why
		next := w.pickNext()
		if next == nil {
			if cur == s.main {
				cur.state = taskRunnable
				panic(w.deadlockPanic())
			}
			s.abort = w.deadlockPanic()
			next = s.main
		}
		w.switchTo(next)
		cur.state = taskRunnable
	}
}

// preemptPoint is called before synchronisation operations when the harness
// asked for preemption (verifSchedPreempt): the running task may be switched
// out although it could continue. Candidate 0 is "stay"; a switch consumes one
// deviation of the delay bound. With it, the explored schedules are all
// interleavings of synchronisation operations within the bound (enough for
// data-race-free code), not only those that switch at blocking operations.
func (w *Worker) preemptPoint() {
	s := w.sched
	if s == nil || !s.preempt || w.merging > 0 || s.choices >= s.maxChoices {
		return
	}
	c := w.candidates(false)
	if len(c) == 0 {
		return
	}
	k := w.schedDecide(len(c) + 1)
	if k == 0 {
		return
	}
	s.cur.state = taskRunnable
	w.switchTo(c[k-1])
}

// yield lets another runnable task run (runtime.Gosched, time.Sleep).
func (w *Worker) yield() {
	s := w.sched
	c := w.candidates(false)
	if len(c) == 0 {
		return
	}
	s.cur.state = taskRunnable
	w.switchTo(c[w.schedDecide(len(c))])
}

// schedFinish is called when the harness function has returned (or the path is
// abandoned): the host goroutines of all unfinished tasks are unwound.
func (w *Worker) schedFinish() {
	s := w.sched
	if s == nil {
		return
	}
	s.killing = true
	for _, t := range s.tasks {
		if t == s.main || t.state == taskDone {
			continue
		}
		t.resume <- struct{}{}
		<-s.exited
	}
	w.sched = nil
}

// schedDrain runs every task that can still run and returns the number of
// tasks that remain blocked for ever (leaked goroutines).
func (w *Worker) schedDrain() int {
	s := w.sched
	if s == nil {
		return 0
	}
	if s.cur != s.main {
		panic(unsupported("verifSchedDrain outside the main task"))
	}
	for {
		c := w.candidates(false)
		if len(c) == 0 {
			break
		}
		s.main.state = taskRunnable
		w.switchTo(c[w.schedDecide(len(c))])
	}
	n := 0
	for _, t := range s.tasks {
		if t != s.main && t.state != taskDone {
			n++
		}
	}
	return n
}

// ---- synchronisation objects ----

func (w *Worker) syncOf(p Ptr) *syncObj {
	if p.Slot == nil {
		w.runtimePanic("invalid memory address or nil pointer dereference")
	}
	o := w.sched.syncs[p.Slot]
	if o == nil {
		o = &syncObj{vc: vclock{}}
		w.sched.syncs[p.Slot] = o
	}
	return o
}

func (w *Worker) acquire(o *syncObj) { w.sched.cur.vc.join(o.vc) }
func (w *Worker) release(o *syncObj) {
	c := w.sched.cur
	o.vc.join(c.vc)
	c.vc[c.id]++
}

// syncCall implements the sync package on the scheduler.
func (w *Worker) syncCall(name string, args []Value) {
	o := w.syncOf(args[0].(Ptr))
	w.preemptPoint()
	switch name {
	case "(*sync.Mutex).Lock", "(*sync.RWMutex).Lock":
		w.blockUntil(func() bool { return !o.locked && o.readers == 0 }, "Mutex.Lock")
		o.locked = true
		w.acquire(o)
	case "(*sync.Mutex).Unlock", "(*sync.RWMutex).Unlock":
		if !o.locked {
			msg := "sync: unlock of unlocked mutex"
			panic(targetPanic{v: StrV{S: msg}, runtime: true, msg: msg})
		}
		w.release(o)
		o.locked = false
	case "(*sync.RWMutex).RLock":
		w.blockUntil(func() bool { return !o.locked }, "RWMutex.RLock")
		o.readers++
		w.acquire(o)
	case "(*sync.RWMutex).RUnlock":
		if o.readers <= 0 {
			msg := "sync: RUnlock of unlocked RWMutex"
			panic(targetPanic{v: StrV{S: msg}, runtime: true, msg: msg})
		}
		w.release(o)
		o.readers--
	case "(*sync.WaitGroup).Add":
		d := int(w.concArg(args[1], "WaitGroup.Add delta"))
		o.counter += d
		if o.counter < 0 {
			msg := "sync: negative WaitGroup counter"
			panic(targetPanic{v: StrV{S: msg}, msg: msg})
		}
		if d < 0 {
			w.release(o)
		}
	case "(*sync.WaitGroup).Done":
		o.counter--
		if o.counter < 0 {
			msg := "sync: negative WaitGroup counter"
			panic(targetPanic{v: StrV{S: msg}, msg: msg})
		}
		w.release(o)
	case "(*sync.WaitGroup).Wait":
		w.blockUntil(func() bool { return o.counter == 0 }, "WaitGroup.Wait")
		w.acquire(o)
	default:
		panic(unsupported("sync function %s under the scheduler", name))
	}
}

func (w *Worker) onceDo(p Ptr, f Value) {
	o := w.syncOf(p)
	// a second caller waits until the first call of f has returned
	w.blockUntil(func() bool { return !o.locked }, "Once.Do")
	if o.done {
		w.acquire(o)
		return
	}
	o.locked = true
	defer func() {
		o.done = true
		o.locked = false
		w.release(o)
	}()
	w.callValue(f, nil)
}

// ---- channels ----

func (w *Worker) chanCap(ch *ChanV) int {
	if !ch.capKnown {
		ch.capN = w.concInt(ch.capT, "channel capacity")
		ch.capKnown = true
	}
	return ch.capN
}

func (w *Worker) chanSendSched(ch *ChanV, v Value) {
	if ch == nil {
		w.blockUntil(func() bool { return false }, "send on nil channel")
	}
	s := w.sched
	capN := w.chanCap(ch)
	w.preemptPoint()
	if capN > 0 {
		w.blockUntil(func() bool { return ch.closed || len(ch.items) < capN }, "chan send (buffer full)")
	} else {
		// rendezvous: wait for a receiver to be ready, then hand over
		w.blockUntil(func() bool { return ch.closed || ch.recvWaiting > ch.pendingUnbuf() }, "chan send (no receiver)")
	}
	if ch.closed {
		panic(targetPanic{v: StrV{S: "send on closed channel"}, runtime: true, msg: "send on closed channel"})
	}
	w.chanPut(ch, v)
	_ = s
}

// chanPut enqueues v (the caller has established that the send can proceed).
func (w *Worker) chanPut(ch *ChanV, v Value) {
	c := w.sched.cur
	capN := w.chanCap(ch)
	if capN > 0 && ch.sendCount >= capN && ch.sendCount-capN < len(ch.recvVCs) {
		// the k-th receive happens before the (k+cap)-th send completes
		c.vc.join(ch.recvVCs[ch.sendCount-capN])
	}
	ch.sendCount++
	it := chanItem{v: v, vc: c.vc.copy()}
	c.vc[c.id]++
	ch.items = append(ch.items, it)
}

// pendingUnbuf is the number of values already handed over to waiting
// receivers of an unbuffered channel and not yet picked up.
func (ch *ChanV) pendingUnbuf() int { return len(ch.items) }

func (w *Worker) chanRecvReady(ch *ChanV) bool { return len(ch.items) > 0 || ch.closed }

func (w *Worker) chanTake(ch *ChanV, elem types.Type) (Value, bool) {
	c := w.sched.cur
	if len(ch.items) > 0 {
		it := ch.items[0]
		ch.items = ch.items[1:]
		c.vc.join(it.vc)
		ch.recvVCs = append(ch.recvVCs, c.vc.copy())
		c.vc[c.id]++
		return it.v, true
	}
	// closed and empty
	c.vc.join(ch.closeVC)
	return w.zero(elem), false
}

func (w *Worker) chanRecvSched(ch *ChanV, elem types.Type) (Value, bool) {
	if ch == nil {
		w.blockUntil(func() bool { return false }, "receive on nil channel")
	}
	w.preemptPoint()
	if !w.chanRecvReady(ch) {
		ch.recvWaiting++
		w.blockUntil(func() bool { return w.chanRecvReady(ch) }, "chan receive")
		ch.recvWaiting--
	}
	return w.chanTake(ch, elem)
}

func (w *Worker) chanCloseSched(ch *ChanV) {
	if ch == nil {
		panic(targetPanic{v: StrV{S: "close of nil channel"}, runtime: true, msg: "close of nil channel"})
	}
	if ch.closed {
		panic(targetPanic{v: StrV{S: "close of closed channel"}, runtime: true, msg: "close of closed channel"})
	}
	c := w.sched.cur
	ch.closed = true
	ch.closeVC = c.vc.copy()
	c.vc[c.id]++
}

func (w *Worker) selectSched(instr *ssa.Select, fr *frame) Value {
	type st struct {
		ch   *ChanV
		send bool
		val  Value
		elem types.Type
	}
	var states []st
	for _, s := range instr.States {
		x := st{send: s.Dir == types.SendOnly}
		if c, ok := fr.get(s.Chan).(*ChanV); ok {
			x.ch = c
		}
		x.elem = s.Chan.Type().Underlying().(*types.Chan).Elem()
		if x.send {
			x.val = fr.get(s.Send)
		}
		states = append(states, x)
	}
	readyIdx := func() []int {
		var r []int
		for i, x := range states {
			if x.ch == nil {
				continue
			}
			if x.send {
				capN := w.chanCap(x.ch)
				if x.ch.closed || (capN > 0 && len(x.ch.items) < capN) || (capN == 0 && x.ch.recvWaiting > x.ch.pendingUnbuf()) {
					r = append(r, i)
				}
			} else if w.chanRecvReady(x.ch) {
				r = append(r, i)
			}
		}
		return r
	}
	w.preemptPoint()
	ready := readyIdx()
	chosen := -1
	if len(ready) == 0 && instr.Blocking {
		for _, x := range states {
			if x.ch != nil && !x.send {
				x.ch.recvWaiting++
			}
		}
		w.blockUntil(func() bool { return len(readyIdx()) > 0 }, "select")
		for _, x := range states {
			if x.ch != nil && !x.send {
				x.ch.recvWaiting--
			}
		}
		ready = readyIdx()
	}
	if len(ready) > 0 {
		// a value already handed over on an unbuffered channel is committed to
		// a waiting receiver: such cases take precedence
		var committed []int
		for _, i := range ready {
			x := states[i]
			if !x.send && w.chanCap(x.ch) == 0 && len(x.ch.items) > 0 {
				committed = append(committed, i)
			}
		}
		if len(committed) > 0 {
			ready = committed
		}
		chosen = ready[w.schedDecide(len(ready))]
	}
	var recvV Value
	recvOk := false
	if chosen >= 0 {
		x := states[chosen]
		if x.send {
			if x.ch.closed {
				panic(targetPanic{v: StrV{S: "send on closed channel"}, runtime: true, msg: "send on closed channel"})
			}
			w.chanPut(x.ch, x.val)
		} else {
			recvV, recvOk = w.chanTake(x.ch, x.elem)
		}
	}
	res := TupleV{w.tt.BV(64, uint64(int64(chosen))), w.tt.Bool(recvOk)}
	for i, x := range states {
		if x.send {
			continue
		}
		if i == chosen {
			res = append(res, recvV)
		} else {
			res = append(res, w.zero(x.elem))
		}
	}
	return res
}

// ---- race detection ----

func (w *Worker) racePos() []*ssa.Function {
	n := len(w.callStack)
	k := n - 3
	if k < 0 {
		k = 0
	}
	return append([]*ssa.Function(nil), w.callStack[k:]...)
}

func posString(fs []*ssa.Function) string {
	var parts []string
	for i := len(fs) - 1; i >= 0; i-- {
		parts = append(parts, fs[i].String())
	}
	return strings.Join(parts, " <- ")
}

func (w *Worker) raceAccess(slot *Value, write bool) {
	s := w.sched
	if s == nil || len(s.tasks) < 2 || slot == nil {
		return
	}
	switch x := (*slot).(type) {
	case StructV:
		for i := range x {
			w.raceAccess(&x[i], write)
		}
		return
	case ArrayV:
		if len(x) <= 64 {
			for i := range x {
				w.raceAccess(&x[i], write)
			}
			return
		}
	}
	cur := s.cur
	c := s.shadow[slot]
	if c == nil {
		c = &shadowCell{wTask: -1}
		s.shadow[slot] = c
	}
	if c.wTask >= 0 && c.wTask != cur.id && c.wClock > cur.vc[c.wTask] {
		kind := "read"
		if write {
			kind = "write"
		}
		w.reportRace(fmt.Sprintf("%s by goroutine %d in %s after unsynchronised write by goroutine %d in %s", kind, cur.id, posString(w.racePos()), c.wTask, posString(c.wPos)))
	}
	if write {
		ids := make([]int, 0, len(c.reads))
		for t := range c.reads {
			ids = append(ids, t)
		}
		sort.Ints(ids)
		for _, t := range ids {
			if t != cur.id && c.reads[t] > cur.vc[t] {
				w.reportRace(fmt.Sprintf("write by goroutine %d in %s after unsynchronised read by goroutine %d in %s", cur.id, posString(w.racePos()), t, posString(c.rPos[t])))
			}
		}
		c.wTask, c.wClock, c.wPos = cur.id, cur.vc[cur.id], w.racePos()
		c.reads, c.rPos = nil, nil
	} else {
		if c.reads == nil {
			c.reads, c.rPos = map[int]int{}, map[int][]*ssa.Function{}
		}
		c.reads[cur.id] = cur.vc[cur.id]
		c.rPos[cur.id] = w.racePos()
	}
}

func (w *Worker) reportRace(msg string) {
	s := w.sched
	if s.raceSeen[msg] || len(s.raceSeen) >= 4 {
		return
	}
	s.raceSeen[msg] = true
	w.reportViolation("race", "data race: "+msg, nil)
}
