package main

import (
	"runtime/debug"
	"runtime/pprof"
	"encoding/json"
	"flag"
	"fmt"
	"os"
	"path/filepath"
	"runtime"
	"sort"
	"strings"
	"time"

	"golang.org/x/tools/go/ssa"
)

var (
	verifRoot = "/verif"
	repoRoot  = "/repo"
)

func main() {
	if v := os.Getenv("VERIF_ROOT"); v != "" {
		verifRoot = v
	}
	if v := os.Getenv("VERIF_REPO"); v != "" {
		repoRoot = v
	}
	if len(os.Args) < 2 {
		fmt.Fprintln(os.Stderr, "usage: gosmt run|check|replay ...")
		os.Exit(2)
	}
	debug.SetGCPercent(400)
	if pf := os.Getenv("VERIF_PPROF"); pf != "" {
		f, _ := os.Create(pf)
		pprof.StartCPUProfile(f)
		defer pprof.StopCPUProfile()
	}
	switch os.Args[1] {
	case "run":
		rc := cmdRun(os.Args[2:])
		pprof.StopCPUProfile()
		os.Exit(rc)
	case "check":
		os.Exit(cmdCheck(os.Args[2:]))
	case "replay":
		os.Exit(cmdReplay(os.Args[2:]))
	default:
		fmt.Fprintln(os.Stderr, "unknown command")
		os.Exit(2)
	}
}

type RunSpec struct {
	Pkg      string         `json:"pkg"`
	Tags     string         `json:"tags"`
	Model    string         `json:"model"`
	Merge    bool           `json:"merge"`
	Harness  []string       `json:"harness"`
	Tier     string         `json:"tier"` // "", "quick", "thorough"
	SoftMS   int            `json:"soft_ms"`
	MaxSteps int            `json:"max_steps"`
	MaxConcr int            `json:"max_concr"`
	MaxPaths int            `json:"max_paths"`
	Params   map[string]int `json:"params"`
	ParamsT  map[string]int `json:"params_thorough"`
	FPExact  bool           `json:"fp_exact_add"`
	Solver   string         `json:"solver"`
	SymSl    bool           `json:"sym_slices"`
	Witnesses int           `json:"witnesses"`
	WallS    int            `json:"wall_s"`
	PoolReuse bool          `json:"pool_reuse"`
	PoolHavoc bool          `json:"pool_havoc"`
}

type HarnessResult struct {
	Harness      string
	Stats        *Stats
	Violations   []Violation
	Inconclusive []Inconclusive
	WallS        float64
	Witnesses    []Witness
}

var currentParams map[string]int

func runHarnesses(l *Loaded, spec RunSpec, workers int, verbose bool) []HarnessResult {
	var out []HarnessResult
	names := spec.Harness
	if len(names) == 0 {
		names = l.Harness
	}
	for _, h := range names {
		fn := l.Pkg.Func(h)
		if fn == nil {
			out = append(out, HarnessResult{Harness: h, Stats: newStats(), Inconclusive: []Inconclusive{{Harness: h, Reason: "harness function not found"}}})
			continue
		}
		cfg := Config{FloatModel: spec.Model, SolverBin: spec.Solver, SoftMS: spec.SoftMS, MaxSteps: spec.MaxSteps, MaxConcr: spec.MaxConcr,
			Merge: spec.Merge, Workers: workers, MaxPaths: spec.MaxPaths, Verbose: verbose, FPExactAdd: spec.FPExact, SymSlices: spec.SymSl, Witnesses: spec.Witnesses, PoolReuse: spec.PoolReuse || spec.PoolHavoc, PoolHavoc: spec.PoolHavoc}
		if cfg.FloatModel == "" {
			cfg.FloatModel = "R"
		}
		if cfg.SolverBin == "" {
			cfg.SolverBin = "z3-new"
			if v := os.Getenv("VERIF_SOLVER"); v != "" {
				cfg.SolverBin = v
			}
		}
		if cfg.SoftMS == 0 {
			cfg.SoftMS = 30000
		}
		if cfg.MaxSteps == 0 {
			cfg.MaxSteps = 20000000
		}
		if cfg.MaxConcr == 0 {
			cfg.MaxConcr = 64
		}
		if spec.WallS > 0 {
			cfg.WallDeadline = time.Now().Add(time.Duration(spec.WallS) * time.Second)
		}
		if v := os.Getenv("VERIF_SOLVER_LOG"); v != "" {
			cfg.SolverLog = v
		}
		t0 := time.Now()
		ex := NewExplorer(l.Prog, fn, cfg)
		ex.Run()
		hr := HarnessResult{Harness: h, Stats: ex.stats, Violations: ex.violations, Inconclusive: ex.inconclusive, WallS: time.Since(t0).Seconds(), Witnesses: ex.witnesses}
		out = append(out, hr)
		if verbose {
			fmt.Fprintf(os.Stderr, "  %-50s paths=%d obl=%d/%d queries=%d (unk %d slow %d) solver=%.1fs wall=%.1fs vio=%d inc=%d merge=%d/%d steps=%d cachehits=%d\n", h, ex.stats.Paths, ex.stats.Discharged, ex.stats.Obligations,
				ex.stats.Queries, ex.stats.QUnknown, ex.stats.QSlow, ex.stats.SolverSec, hr.WallS, len(ex.violations), len(ex.inconclusive), ex.stats.MergeOK, ex.stats.MergeAbort, ex.stats.Steps, ex.stats.CacheHits)
			for _, inc := range ex.inconclusive {
				fmt.Fprintf(os.Stderr, "    INCONCLUSIVE(x%d): %s [%s]\n", inc.Count, inc.Reason, inc.Case)
			}
			for _, v := range ex.violations {
				b, _ := json.Marshal(v.Tape)
				fmt.Fprintf(os.Stderr, "    VIOLATION(%s): %s [%s] tape=%s\n", v.Kind, v.Msg, v.Case, b)
			}
		}
	}
	return out
}

func cmdRun(args []string) int {
	fs := flag.NewFlagSet("run", flag.ExitOnError)
	pkg := fs.String("pkg", "", "package dir relative to repo")
	tags := fs.String("tags", "noasm", "build tags")
	model := fs.String("model", "R", "float model R|F")
	merge := fs.Bool("merge", false, "merge at post-dominators")
	harness := fs.String("harness", "", "comma separated harness names (default all Verif*)")
	workers := fs.Int("workers", runtime.NumCPU(), "workers")
	soft := fs.Int("soft-ms", 30000, "solver soft timeout")
	params := fs.String("params", "", "k=v,k=v")
	replay := fs.Bool("replay", false, "replay violations natively")
	fpexact := fs.Bool("fp-exact-add", false, "model F: real fp.add/sub")
	maxPaths := fs.Int("max-paths", 0, "path budget")
	solver := fs.String("solver", "", "solver binary (default z3-new)")
	symsl := fs.Bool("sym-slices", false, "keep slice offsets symbolic")
	witness := fs.Int("witness", 0, "validate this many completed paths per harness natively")
	poolReuse := fs.Bool("pool-reuse", false, "sync.Pool keeps and hands out objects")
	poolHavoc := fs.Bool("pool-havoc", false, "pooled objects have arbitrary numeric contents (implies -pool-reuse)")
	fs.Parse(args)
	t0 := time.Now()
	l, err := loadProgram(repoRoot, filepath.Join(verifRoot, "harness"), *pkg, *tags)
	if err != nil {
		fmt.Fprintln(os.Stderr, "load error:", err)
		return 2
	}
	fmt.Fprintf(os.Stderr, "loaded %s in %.1fs; harnesses: %v\n", *pkg, time.Since(t0).Seconds(), l.Harness)
	spec := RunSpec{Pkg: *pkg, Tags: *tags, Model: *model, Merge: *merge, SoftMS: *soft, FPExact: *fpexact, MaxPaths: *maxPaths, Solver: *solver, SymSl: *symsl, Witnesses: *witness, PoolReuse: *poolReuse, PoolHavoc: *poolHavoc}
	if *harness != "" {
		spec.Harness = strings.Split(*harness, ",")
	}
	currentParams = map[string]int{}
	if *params != "" {
		for _, kv := range strings.Split(*params, ",") {
			var k string
			var v int
			p := strings.SplitN(kv, "=", 2)
			k = p[0]
			fmt.Sscanf(p[1], "%d", &v)
			currentParams[k] = v
		}
	}
	res := runHarnesses(l, spec, *workers, true)
	rc := 0
	defer cleanupReplayBins()
	for _, hr := range res {
		if len(hr.Inconclusive) > 0 && rc == 0 {
			rc = 2
		}
		for _, wt := range hr.Witnesses {
			wt.Tape.complete(spec, l)
			ok, detail := checkWitness(spec, wt)
			fmt.Fprintf(os.Stderr, "    witness [%s]: agree=%v %s (observations %d)\n", wt.Case, ok, detail, len(wt.Expect))
			if !ok && rc == 0 {
				rc = 2
			}
		}
		for _, v := range hr.Violations {
			rc = 1
			if *replay {
				v.Tape.complete(spec, l)
				rr := replayTape(l, spec, v.Tape)
				fmt.Fprintf(os.Stderr, "    replay: reproduced=%v %s\n", rr.Reproduced, rr.Summary)
			}
		}
	}
	return rc
}

// ---- check ----

type CheckSpec struct {
	Property string    `json:"property"`
	Runs     []RunSpec `json:"runs"`
	Assume   []string  `json:"assumptions"`
	Bounds   string    `json:"bounds"`
	Outside  string    `json:"outside"`
}

type KnownFinding struct {
	Property string `json:"property"`
	Status   string `json:"status"` // "finding" or "fixed"
	Harness  string `json:"harness"`
	Match    string `json:"match"`
	Commit   string `json:"commit,omitempty"`
	Desc     string `json:"desc"`
}

func cmdCheck(args []string) int {
	fs := flag.NewFlagSet("check", flag.ExitOnError)
	tier := fs.String("tier", "quick", "quick|thorough")
	workers := fs.Int("workers", runtime.NumCPU(), "workers")
	verbose := fs.Bool("v", false, "verbose")
	only := fs.String("only", "", "substring filter on harness names")
	noEvidence := fs.Bool("no-evidence", false, "do not write the evidence file")
	fs.Parse(reorderArgs(args, map[string]bool{"tier": true, "workers": true, "only": true}))
	if fs.NArg() < 1 {
		fmt.Fprintln(os.Stderr, "usage: gosmt check [--tier quick|thorough] <ID>")
		return 2
	}
	id := fs.Arg(0)
	if t := os.Getenv("VERIF_TIER"); t != "" && !flagSet(fs, "tier") {
		*tier = t
	}
	seed := 0
	if s := os.Getenv("VERIF_SEED"); s != "" {
		fmt.Sscanf(s, "%d", &seed)
	}
	b, err := os.ReadFile(filepath.Join(verifRoot, "checks", id+".json"))
	if err != nil {
		fmt.Fprintln(os.Stderr, err)
		return 2
	}
	var cs CheckSpec
	if err := json.Unmarshal(b, &cs); err != nil {
		fmt.Fprintln(os.Stderr, "bad check spec:", err)
		return 2
	}
	var known []KnownFinding
	if kb, err := os.ReadFile(filepath.Join(verifRoot, "known_findings.json")); err == nil {
		json.Unmarshal(kb, &known)
	}
	t0 := time.Now()
	total := newStats()
	var allVio []Violation
	var allInc []Inconclusive
	var perHarness []map[string]interface{}
	replays := 0
	reproduced := 0
	var vioLines, knownLines []string
	witnessRuns, witnessOK := 0, 0
	tagSet := map[string]bool{}
	modelSet := map[string]bool{}
	loadCache := map[string]*Loaded{}
	for _, run := range cs.Runs {
		if run.Tier != "" && run.Tier != *tier {
			continue
		}
		if *only != "" {
			var hs []string
			for _, h := range run.Harness {
				if strings.Contains(h, *only) {
					hs = append(hs, h)
				}
			}
			if len(hs) == 0 {
				continue
			}
			run.Harness = hs
		}
		if run.Tags == "" {
			run.Tags = "noasm"
		}
		key := run.Pkg + "|" + run.Tags
		l, ok := loadCache[key]
		if !ok {
			l, err = loadProgram(repoRoot, filepath.Join(verifRoot, "harness"), run.Pkg, run.Tags)
			if err != nil {
				fmt.Printf("INCONCLUSIVE property=%s load failed for %s: %v\n", id, run.Pkg, err)
				return 2
			}
			loadCache[key] = l
		}
		tagSet[run.Tags] = true
		if run.Model == "" {
			run.Model = "R"
		}
		modelSet[run.Model] = true
		currentParams = map[string]int{}
		for k, v := range run.Params {
			currentParams[k] = v
		}
		if *tier == "thorough" {
			for k, v := range run.ParamsT {
				currentParams[k] = v
			}
		}
		if *verbose {
			fmt.Fprintf(os.Stderr, "run pkg=%s tags=%s model=%s merge=%v params=%v\n", run.Pkg, run.Tags, run.Model, run.Merge, currentParams)
		}
		if run.Witnesses == 0 {
			run.Witnesses = 1
		}
		if os.Getenv("VERIF_NO_WITNESS") != "" {
			run.Witnesses = 0
		}
		res := runHarnesses(l, run, *workers, *verbose)
		for _, hr := range res {
			total.add(hr.Stats)
			for _, wt := range hr.Witnesses {
				wt.Tape.complete(run, l)
				witnessRuns++
				ok, detail := checkWitness(run, wt)
				if ok {
					witnessOK++
				} else {
					tb, _ := json.Marshal(wt.Tape)
					allInc = append(allInc, Inconclusive{Harness: hr.Harness, Reason: fmt.Sprintf("translator validation (pkg %s, tags %s, model %s): %s; tape %s", run.Pkg, run.Tags, run.Model, detail, tb), Case: wt.Case})
				}
			}
			allInc = append(allInc, hr.Inconclusive...)
			ph := map[string]interface{}{"harness": hr.Harness, "pkg": run.Pkg, "tags": run.Tags, "model": run.Model, "merge": run.Merge,
				"paths": hr.Stats.Paths, "decisions": hr.Stats.Decisions, "obligations": hr.Stats.Obligations, "discharged": hr.Stats.Discharged,
				"queries": hr.Stats.Queries, "unknown": hr.Stats.QUnknown, "slow": hr.Stats.QSlow, "solver_s": round3(hr.Stats.SolverSec), "wall_s": round3(hr.WallS),
				"cases": len(hr.Stats.Cases), "reach": hr.Stats.Reached, "params": copyParams(currentParams),
				"violations": len(hr.Violations), "inconclusive": len(hr.Inconclusive)}
			perHarness = append(perHarness, ph)
			if hr.Stats.Paths == 0 && len(hr.Inconclusive) == 0 && len(hr.Violations) == 0 {
				allInc = append(allInc, Inconclusive{Harness: hr.Harness, Reason: "vacuous: no feasible complete path"})
			}
			// group counterexamples by message; replay until one reproduces
			done := map[string]bool{}
			failed := map[string]string{}
			for _, v := range hr.Violations {
				key := v.Kind + "|" + v.Msg
				if v.Kind == "race" {
					key = "race" // one native confirmation per harness: goroutine ids in the message vary
				}
				if done[key] {
					continue
				}
				v.Tape.complete(run, l)
				kf := matchKnown(known, id, v)
				dir := filepath.Join(verifRoot, "replays", id)
				os.MkdirAll(dir, 0o755)
				path := filepath.Join(dir, fmt.Sprintf("%s-%d.json", v.Harness, len(allVio)))
				tb, _ := json.MarshalIndent(v.Tape, "", " ")
				os.WriteFile(path, tb, 0o644)
				rr := replayTape(l, run, v.Tape)
				replays++
				allVio = append(allVio, v)
				if rr.Reproduced {
					reproduced++
					done[key] = true
					delete(failed, key)
					if kf != nil {
						knownLines = append(knownLines, fmt.Sprintf("KNOWN-FINDING: property=%s %s", id, kf.Desc))
					} else {
						vioLines = append(vioLines, fmt.Sprintf("VIOLATION property=%s replay=%s", id, path))
						fmt.Printf("  violated: harness=%s msg=%q case=[%s] native: %s\n", v.Harness, v.Msg, v.Case, rr.Summary)
					}
				} else {
					failed[key] = fmt.Sprintf("counterexample for %q did not reproduce natively (%s): encoding or stub mismatch, or an effect the native oracle cannot observe", v.Msg, rr.Summary)
					os.Remove(path)
				}
			}
			for _, why := range failed {
				allInc = append(allInc, Inconclusive{Harness: hr.Harness, Reason: why})
			}
		}
	}
	cleanupReplayBins()
	wall := time.Since(t0).Seconds()
	// evidence
	if !*noEvidence {
		funcs := make([]string, 0, len(total.Funcs))
		for f, n := range total.Funcs {
			if strings.Contains(f, "verif") || strings.Contains(f, "Verif") {
				continue
			}
			funcs = append(funcs, fmt.Sprintf("%s (%d instrs)", f, n))
		}
		sort.Strings(funcs)
		stubs := make([]string, 0, len(total.Stubs))
		for s, n := range total.Stubs {
			stubs = append(stubs, fmt.Sprintf("%s [x%d]", s, n))
		}
		sort.Strings(stubs)
		var samples []interface{}
		for _, s := range total.Samples {
			samples = append(samples, s)
		}
		if len(samples) == 0 {
			samples = append(samples, map[string]string{"note": "no non-trivial obligation sampled"})
		}
		assumptions := append([]string{}, cs.Assume...)
		assumptions = append(assumptions, stubs...)
		var incs []string
		for _, i := range allInc {
			incs = append(incs, i.Harness+": "+i.Reason)
		}
		ev := map[string]interface{}{
			"property_id": id,
			"tier":        *tier,
			"seed":        seed,
			"level":       "model_checking",
			"wall_s":      round3(wall),
			"violations":  len(vioLines),
			"assumptions": assumptions,
			"coverage": map[string]interface{}{
				"states":                        maxi(total.Paths, 0),
				"transitions":                   total.Decisions,
				"traces_validated_against_impl": replays + witnessRuns,
				"samples":                       samples,
				"obligations":                   total.Obligations,
				"discharged":                    total.Discharged,
				"trivially_discharged":          total.TrivialObl,
				"solver_queries":                map[string]int{"total": total.Queries, "sat": total.QSat, "unsat": total.QUnsat, "unknown": total.QUnknown, "error": total.QErrors, "decided_only_by_last_escalation_stage": total.QSlow},
				"solver_seconds":                round3(total.SolverSec),
				"interpreted_ssa_steps":         total.Steps,
				"functions_encoded":             funcs,
				"functions_encoded_count":       len(funcs),
				"build_tags":                    keys(tagSet),
				"float_models":                  keys(modelSet),
				"harnesses":                     perHarness,
				"bounds":                        cs.Bounds,
				"outside_claim":                 cs.Outside,
				"merges":                        map[string]int{"merged": total.MergeOK, "aborted": total.MergeAbort},
				"inconclusive":                  incs,
				"replays":                       map[string]int{"run": replays, "reproduced": reproduced},
				"witness_validation":            map[string]int{"run": witnessRuns, "agree": witnessOK},
				"known_findings_reported":       knownLines,
				"explanation":                   "bounded symbolic execution of the SSA of the real functions; every obligation is an SMT query (path condition AND NOT assertion) decided by z3; states = feasible complete paths, transitions = recorded decisions (branches, case splits, concretisations)",
				"exhaustive":                    len(allInc) == 0,
			},
		}
		os.MkdirAll(filepath.Join(verifRoot, "evidence"), 0o755)
		eb, _ := json.MarshalIndent(ev, "", " ")
		os.WriteFile(filepath.Join(verifRoot, "evidence", id+".json"), eb, 0o644)
	}
	for _, l := range knownLines {
		fmt.Println(l)
	}
	fmt.Printf("property=%s tier=%s paths=%d obligations=%d discharged=%d queries=%d unknown=%d solver=%.1fs wall=%.1fs\n", id, *tier, total.Paths, total.Obligations, total.Discharged, total.Queries, total.QUnknown, total.SolverSec, wall)
	if len(vioLines) > 0 {
		for _, l := range vioLines {
			fmt.Println(l)
		}
		return 1
	}
	if len(allInc) > 0 {
		for _, i := range allInc {
			fmt.Printf("INCONCLUSIVE property=%s harness=%s %s [%s]\n", id, i.Harness, i.Reason, i.Case)
		}
		return 2
	}
	if total.Paths == 0 {
		fmt.Printf("INCONCLUSIVE property=%s nothing explored\n", id)
		return 2
	}
	fmt.Printf("OK property=%s\n", id)
	return 0
}

// reorderArgs moves positional arguments behind the flags so that
// `check C05 --tier thorough` and `check --tier thorough C05` are the same.
func reorderArgs(args []string, takesValue map[string]bool) []string {
	var flags, pos []string
	for i := 0; i < len(args); i++ {
		a := args[i]
		if a == "--" {
			pos = append(pos, args[i+1:]...)
			break
		}
		if strings.HasPrefix(a, "-") && a != "-" {
			flags = append(flags, a)
			name := strings.TrimLeft(a, "-")
			if !strings.Contains(name, "=") && takesValue[name] && i+1 < len(args) {
				i++
				flags = append(flags, args[i])
			}
			continue
		}
		pos = append(pos, a)
	}
	return append(flags, pos...)
}

func flagSet(fs *flag.FlagSet, name string) bool {
	found := false
	fs.Visit(func(f *flag.Flag) {
		if f.Name == name {
			found = true
		}
	})
	return found
}

func matchKnown(known []KnownFinding, id string, v Violation) *KnownFinding {
	for i := range known {
		k := &known[i]
		if k.Property == id && k.Status == "finding" && (k.Harness == "" || k.Harness == v.Harness) && strings.Contains(v.Msg, k.Match) {
			return k
		}
	}
	return nil
}

func copyParams(m map[string]int) map[string]int {
	r := map[string]int{}
	for k, v := range m {
		r[k] = v
	}
	return r
}

func keys(m map[string]bool) []string {
	var r []string
	for k := range m {
		r = append(r, k)
	}
	sort.Strings(r)
	return r
}

func round3(f float64) float64 { return float64(int64(f*1000+0.5)) / 1000 }
func maxi(a, b int) int {
	if a > b {
		return a
	}
	return b
}

var _ = ssa.InstantiateGenerics
