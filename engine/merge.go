package main

// State merging at the immediate post-dominator of a symbolic If.

import (
	"sync"

	"golang.org/x/tools/go/ssa"
)

type journalEnt struct {
	slot *Value
	old  Value
}

type mergeAbort struct{ reason string }

func (w *Worker) noJournal(what string) {
	if w.merging > 0 {
		panic(mergeAbort{what + " inside merge"})
	}
}

var (
	ipdomMu    sync.Mutex
	ipdomCache = map[*ssa.Function][]int{}
)

// ipdoms returns for each block index its immediate post-dominator block
// index, or -1 (virtual exit / none).
func ipdoms(fn *ssa.Function) []int {
	ipdomMu.Lock()
	defer ipdomMu.Unlock()
	if r, ok := ipdomCache[fn]; ok {
		return r
	}
	n := len(fn.Blocks)
	exit := n
	// pdom sets as bitsets over n+1 nodes
	words := (n + 1 + 63) / 64
	full := make([]uint64, words)
	for i := 0; i <= n; i++ {
		full[i/64] |= 1 << uint(i%64)
	}
	pd := make([][]uint64, n+1)
	for i := 0; i <= n; i++ {
		pd[i] = append([]uint64(nil), full...)
	}
	pd[exit] = make([]uint64, words)
	pd[exit][exit/64] |= 1 << uint(exit%64)
	succs := func(i int) []int {
		b := fn.Blocks[i]
		if len(b.Succs) == 0 {
			return []int{exit}
		}
		var s []int
		for _, x := range b.Succs {
			s = append(s, x.Index)
		}
		return s
	}
	changed := true
	for changed {
		changed = false
		for i := n - 1; i >= 0; i-- {
			nw := append([]uint64(nil), full...)
			for _, s := range succs(i) {
				for k := range nw {
					nw[k] &= pd[s][k]
				}
			}
			nw[i/64] |= 1 << uint(i%64)
			for k := range nw {
				if nw[k] != pd[i][k] {
					changed = true
				}
			}
			pd[i] = nw
		}
	}
	has := func(set []uint64, i int) bool { return set[i/64]&(1<<uint(i%64)) != 0 }
	count := func(set []uint64) int {
		c := 0
		for i := 0; i <= n; i++ {
			if has(set, i) {
				c++
			}
		}
		return c
	}
	res := make([]int, n)
	for i := 0; i < n; i++ {
		res[i] = -1
		// strict post-dominators of i; the immediate one is the one whose own
		// pdom set has size count(pd[i])-1
		want := count(pd[i]) - 1
		for j := 0; j <= n; j++ {
			if j != i && has(pd[i], j) && count(pd[j]) == want {
				if j != exit {
					res[i] = j
				}
				break
			}
		}
	}
	ipdomCache[fn] = res
	return res
}

type armResult struct {
	pred   *ssa.BasicBlock
	writes map[*Value]Value
	order  []*Value
}

// runArm executes from block start (entered from the If block) until the join
// block is reached, then undoes its writes and returns them.
func (fr *frame) runArm(ifBlock, start, join *ssa.BasicBlock, cond *Term) armResult {
	w := fr.w
	jstart := len(w.journal)
	pcLen := len(w.pc)
	w.addPC(cond)
	fr.prevBlock, fr.block = ifBlock, start
	for fr.block != join {
		if fr.block == nil {
			panic(mergeAbort{"return inside arm"})
		}
		fr.execBlockOnce()
	}
	res := armResult{pred: fr.prevBlock, writes: map[*Value]Value{}}
	// collect and undo
	for i := jstart; i < len(w.journal); i++ {
		s := w.journal[i].slot
		if _, ok := res.writes[s]; !ok {
			res.writes[s] = *s
			res.order = append(res.order, s)
		}
	}
	for i := len(w.journal) - 1; i >= jstart; i-- {
		*w.journal[i].slot = w.journal[i].old
	}
	w.journal = w.journal[:jstart]
	w.truncPC(pcLen)
	return res
}

func (w *Worker) truncPC(n int) {
	for i := n; i < len(w.pc); i++ {
		delete(w.pcSet, w.pc[i])
	}
	w.pc = w.pc[:n]
}

// execBlockOnce runs the current block (phis + instructions) up to its jump.
func (fr *frame) execBlockOnce() {
	fr.evalPhis()
	nphi := fr.countPhis()
	for _, instr := range fr.block.Instrs[nphi:] {
		fr.w.steps++
		if fr.w.steps > fr.w.cfg.MaxSteps {
			panic(budgetErr{"step budget exceeded"})
		}
		switch instr.(type) {
		case *ssa.Return, *ssa.Defer, *ssa.RunDefers, *ssa.Go, *ssa.Select:
			panic(mergeAbort{"control effect inside arm"})
		}
		if fr.visit(instr) == kJump {
			return
		}
	}
	panic(mergeAbort{"block without jump"})
}

func (fr *frame) countPhis() int {
	n := 0
	for _, instr := range fr.block.Instrs {
		if _, ok := instr.(*ssa.Phi); !ok {
			break
		}
		n++
	}
	return n
}

func (fr *frame) evalPhis() {
	if fr.skipPhis {
		fr.skipPhis = false
		return
	}
	n := fr.countPhis()
	if n == 0 {
		return
	}
	vals := make([]Value, 0, n)
	for _, instr := range fr.block.Instrs[:n] {
		phi := instr.(*ssa.Phi)
		found := false
		for i, pred := range fr.block.Preds {
			if fr.prevBlock == pred {
				vals = append(vals, fr.get(phi.Edges[i]))
				found = true
				break
			}
		}
		if !found {
			panic("phi: predecessor not found")
		}
	}
	for i := 0; i < n; i++ {
		fr.env[fr.block.Instrs[i].(*ssa.Phi)] = vals[i]
	}
}

// tryMerge attempts to execute both arms of a symbolic If and merge at the
// immediate post-dominator. Returns true if fr.block has been advanced.
func (fr *frame) tryMerge(instr *ssa.If, c *Term) (done bool) {
	w := fr.w
	ifBlock := fr.block
	ip := ipdoms(fr.fn)[ifBlock.Index]
	if ip < 0 {
		return false
	}
	join := fr.fn.Blocks[ip]
	// known by path condition?
	if w.pcSet[c] || w.pcSet[w.tt.Not(c)] {
		return false
	}
	// while replaying a recorded prefix the next decision may belong to this
	// If (a previous attempt aborted): then do not try again.
	if w.merging == 0 && len(w.trail) < len(w.prefix) {
		// Determinism: attempts are repeated identically on replay, so an
		// attempt that aborted before will abort again; cheap enough.
	}
	nc := w.tt.Not(c)
	if w.merging > 0 {
		// inside an enclosing merge: feasibility decides single-sided cases
		t := w.feasible(c)
		f := true
		if t {
			f = w.feasible(nc)
		}
		if !(t && f) {
			return false // branch() will take the only feasible side
		}
	}
	outer := w.merging == 0
	var jstart, pcLen, nextBack, ninputs int
	var savedPrev *ssa.BasicBlock
	if outer {
		jstart, pcLen, nextBack, ninputs = len(w.journal), len(w.pc), w.nextBack, len(w.inputs)
		savedPrev = fr.prevBlock
	}
	w.merging++
	defer func() {
		w.merging--
		r := recover()
		if r == nil {
			return
		}
		var reason string
		switch x := r.(type) {
		case mergeAbort:
			reason = x.reason
		case targetPanic:
			reason = "panic inside arm"
		case pathEnd:
			reason = "path end inside arm"
		default:
			panic(r)
		}
		if !outer {
			panic(mergeAbort{reason})
		}
		// restore everything and fall back to forking
		for i := len(w.journal) - 1; i >= jstart; i-- {
			*w.journal[i].slot = w.journal[i].old
		}
		w.journal = w.journal[:jstart]
		w.truncPC(pcLen)
		w.nextBack = nextBack
		if len(w.inputs) > ninputs {
			for _, in := range w.inputs[ninputs:] {
				delete(w.inputSet, in.Name)
			}
			w.inputs = w.inputs[:ninputs]
		}
		fr.block, fr.prevBlock = ifBlock, savedPrev
		fr.skipPhis = false
		w.stats.MergeAbort++
		done = false
	}()

	a1 := fr.runArm(ifBlock, ifBlock.Succs[0], join, c)
	a2 := fr.runArm(ifBlock, ifBlock.Succs[1], join, nc)

	// merge memory
	seen := map[*Value]bool{}
	for _, lst := range [][]*Value{a1.order, a2.order} {
		for _, s := range lst {
			if seen[s] {
				continue
			}
			seen[s] = true
			v1, ok1 := a1.writes[s]
			if !ok1 {
				v1 = *s
			}
			v2, ok2 := a2.writes[s]
			if !ok2 {
				v2 = *s
			}
			nv := w.iteValue(c, v1, v2)
			if w.merging > 1 || true {
				// journal for enclosing merges (and harmless otherwise)
				if w.merging > 1 {
					w.journal = append(w.journal, journalEnt{s, *s})
				}
			}
			*s = nv
		}
	}
	// merge phis at the join
	nphi := 0
	for _, in := range join.Instrs {
		if _, ok := in.(*ssa.Phi); !ok {
			break
		}
		nphi++
	}
	if nphi > 0 {
		idx := func(pred *ssa.BasicBlock) int {
			for i, p := range join.Preds {
				if p == pred {
					return i
				}
			}
			panic(mergeAbort{"join predecessor not found"})
		}
		i1, i2 := idx(a1.pred), idx(a2.pred)
		vals := make([]Value, nphi)
		for k := 0; k < nphi; k++ {
			phi := join.Instrs[k].(*ssa.Phi)
			vals[k] = w.iteValue(c, fr.get(phi.Edges[i1]), fr.get(phi.Edges[i2]))
		}
		for k := 0; k < nphi; k++ {
			fr.env[join.Instrs[k].(*ssa.Phi)] = vals[k]
		}
	}
	fr.prevBlock, fr.block = a1.pred, join
	fr.skipPhis = true
	w.stats.MergeOK++
	return true
}
