package main

import (
	"fmt"
	"go/token"
	"go/types"
	"math"
	"unicode/utf8"

	"golang.org/x/tools/go/ssa"
)

func float32frombits(b uint32) float32 { return math.Float32frombits(b) }
func float64frombits(b uint64) float64 { return math.Float64frombits(b) }
func negZero() float64                 { return math.Copysign(0, -1) }
func inf(s int) float64                { return math.Inf(s) }
func nan() float64                     { return math.NaN() }

// ---- float model dispatch ----

func (w *Worker) isF() bool { return w.cfg.FloatModel == "F" }

func fpW(f32 bool) int {
	if f32 {
		return 32
	}
	return 64
}

func (w *Worker) fconst(f32 bool, v float64) *Term {
	if w.isF() {
		return w.tt.FPConst(fpW(f32), v)
	}
	return w.tt.Real(v)
}

func (w *Worker) fBin(op token.Token, a, b *Term, f32 bool) *Term {
	tt := w.tt
	if !w.isF() {
		switch op {
		case token.ADD:
			return tt.rBin(OpRAdd, a, b, f32)
		case token.SUB:
			return tt.rBin(OpRSub, a, b, f32)
		case token.MUL:
			return tt.rBin(OpRMul, a, b, f32)
		case token.QUO:
			if !b.IsConst() {
				// x/0 is Inf/NaN natively, which the finite-real model cannot
				// represent. Default: continue with an unconstrained ("poison")
				// value, so anything that depends on it cannot be proved and is
				// decided by native replay. A harness may instead ask for such
				// paths to be pruned (verifDivZeroPrune), which is then recorded.
				if w.branch(tt.Eq(b, tt.Real(0))) {
					if w.cfg.DivZeroPrune {
						w.stats.Stubs["R+ model: path with a zero float divisor pruned (harness opted in)"]++
						panic(pathEnd{"zero divisor outside the finite-real model"})
					}
					w.stats.Stubs["R+ model: float division by zero yields an unconstrained value (decided by native replay)"]++
					w.poisoned = true
					return tt.Fresh("nonfinite", RealSort)
				}
			}
			return tt.rBin(OpRDiv, a, b, f32)
		}
		panic("fBin op")
	}
	// model F
	if a.IsConst() && b.IsConst() {
		x, y := a.F, b.F
		var r float64
		if f32 {
			x32, y32 := float32(x), float32(y)
			switch op {
			case token.ADD:
				r = float64(x32 + y32)
			case token.SUB:
				r = float64(x32 - y32)
			case token.MUL:
				r = float64(x32 * y32)
			case token.QUO:
				r = float64(x32 / y32)
			}
		} else {
			switch op {
			case token.ADD:
				r = x + y
			case token.SUB:
				r = x - y
			case token.MUL:
				r = x * y
			case token.QUO:
				r = x / y
			}
		}
		return tt.FPConst(fpW(f32), r)
	}
	s := Sort{SFP, fpW(f32)}
	switch op {
	case token.ADD:
		if w.cfg.FPExactAdd {
			return tt.intern(Term{Op: OpFPAdd, Sort: s, Args: []*Term{a, b}})
		}
		return tt.UF(fmt.Sprintf("fadd%d", s.W), s, a, b)
	case token.SUB:
		if w.cfg.FPExactAdd {
			return tt.intern(Term{Op: OpFPSub, Sort: s, Args: []*Term{a, b}})
		}
		return tt.UF(fmt.Sprintf("fsub%d", s.W), s, a, b)
	case token.MUL:
		return tt.UF(fmt.Sprintf("fmul%d", s.W), s, a, b)
	case token.QUO:
		return tt.UF(fmt.Sprintf("fdiv%d", s.W), s, a, b)
	}
	panic("fBin op")
}

func (w *Worker) fNeg(a *Term) *Term {
	if !w.isF() {
		return w.tt.RNeg(a)
	}
	if a.IsConst() {
		return w.tt.FPConst(a.Sort.W, -a.F)
	}
	return w.tt.fpUn(OpFPNeg, a.Sort, a)
}

func (w *Worker) fAbs(a *Term) *Term {
	tt := w.tt
	if !w.isF() {
		if a.IsConst() {
			return tt.Real(math.Abs(a.F))
		}
		return tt.Ite(tt.RLt(a, tt.Real(0)), tt.RNeg(a), a)
	}
	if a.IsConst() {
		return tt.FPConst(a.Sort.W, math.Abs(a.F))
	}
	return tt.fpUn(OpFPAbs, a.Sort, a)
}

func (w *Worker) fLt(a, b *Term) *Term {
	tt := w.tt
	if !w.isF() {
		return tt.RLt(a, b)
	}
	if a.IsConst() && b.IsConst() {
		return tt.Bool(a.F < b.F)
	}
	return tt.intern(Term{Op: OpFPLt, Sort: BoolSort, Args: []*Term{a, b}})
}
func (w *Worker) fLe(a, b *Term) *Term {
	tt := w.tt
	if !w.isF() {
		return tt.RLe(a, b)
	}
	if a.IsConst() && b.IsConst() {
		return tt.Bool(a.F <= b.F)
	}
	return tt.intern(Term{Op: OpFPLe, Sort: BoolSort, Args: []*Term{a, b}})
}
func (w *Worker) fEq(a, b *Term) *Term {
	if !w.isF() {
		return w.tt.REq(a, b)
	}
	return w.tt.Eq(a, b)
}
func (w *Worker) fIsNaN(a *Term) *Term {
	tt := w.tt
	if a.IsConst() {
		return tt.Bool(math.IsNaN(a.F))
	}
	if !w.isF() {
		return tt.Bool(false)
	}
	return tt.fpUn(OpFPIsNaN, BoolSort, a)
}
func (w *Worker) fIsInf(a *Term, sign int) *Term {
	tt := w.tt
	if a.IsConst() {
		return tt.Bool(math.IsInf(a.F, sign))
	}
	if !w.isF() {
		return tt.Bool(false)
	}
	isinf := tt.fpUn(OpFPIsInf, BoolSort, a)
	neg := tt.fpUn(OpFPIsNeg, BoolSort, a)
	switch {
	case sign > 0:
		return tt.And(isinf, tt.Not(neg))
	case sign < 0:
		return tt.And(isinf, neg)
	}
	return isinf
}

// ---- binop ----

func (w *Worker) binop(op token.Token, t types.Type, x, y Value) Value {
	tt := w.tt
	switch xv := x.(type) {
	case *Term:
		yv := y.(*Term)
		bt, _ := t.Underlying().(*types.Basic)
		if bt == nil {
			panic(fmt.Sprintf("binop on term with type %v", t))
		}
		info := bt.Info()
		switch {
		case info&types.IsBoolean != 0:
			switch op {
			case token.EQL:
				return tt.Eq(xv, yv)
			case token.NEQ:
				return tt.Not(tt.Eq(xv, yv))
			case token.LAND:
				return tt.And(xv, yv)
			case token.LOR:
				return tt.Or(xv, yv)
			}
		case info&types.IsInteger != 0:
			return w.intBinop(op, bt, xv, yv)
		case info&types.IsFloat != 0:
			f32 := bt.Kind() == types.Float32
			switch op {
			case token.ADD, token.SUB, token.MUL, token.QUO:
				return w.fBin(op, xv, yv, f32)
			case token.EQL:
				return w.fEq(xv, yv)
			case token.NEQ:
				return tt.Not(w.fEq(xv, yv))
			case token.LSS:
				return w.fLt(xv, yv)
			case token.LEQ:
				return w.fLe(xv, yv)
			case token.GTR:
				return w.fLt(yv, xv)
			case token.GEQ:
				return w.fLe(yv, xv)
			}
		}
		panic(fmt.Sprintf("binop %v on %v", op, t))
	case ComplexV:
		yv := y.(ComplexV)
		f32 := isF32(t)
		add := func(a, b *Term) *Term { return w.fBin(token.ADD, a, b, f32) }
		sub := func(a, b *Term) *Term { return w.fBin(token.SUB, a, b, f32) }
		mul := func(a, b *Term) *Term { return w.fBin(token.MUL, a, b, f32) }
		switch op {
		case token.ADD:
			return ComplexV{add(xv.Re, yv.Re), add(xv.Im, yv.Im)}
		case token.SUB:
			return ComplexV{sub(xv.Re, yv.Re), sub(xv.Im, yv.Im)}
		case token.MUL:
			return ComplexV{sub(mul(xv.Re, yv.Re), mul(xv.Im, yv.Im)), add(mul(xv.Re, yv.Im), mul(xv.Im, yv.Re))}
		case token.QUO:
			if w.isF() {
				return ComplexV{tt.UF("cdivre", xv.Re.Sort, xv.Re, xv.Im, yv.Re, yv.Im), tt.UF("cdivim", xv.Re.Sort, xv.Re, xv.Im, yv.Re, yv.Im)}
			}
			den := add(mul(yv.Re, yv.Re), mul(yv.Im, yv.Im))
			re := w.fBin(token.QUO, add(mul(xv.Re, yv.Re), mul(xv.Im, yv.Im)), den, f32)
			im := w.fBin(token.QUO, sub(mul(xv.Im, yv.Re), mul(xv.Re, yv.Im)), den, f32)
			return ComplexV{re, im}
		case token.EQL:
			return tt.And(w.fEq(xv.Re, yv.Re), w.fEq(xv.Im, yv.Im))
		case token.NEQ:
			return tt.Not(tt.And(w.fEq(xv.Re, yv.Re), w.fEq(xv.Im, yv.Im)))
		}
	case StrV:
		yv := y.(StrV)
		switch op {
		case token.ADD:
			if xv.Sym == nil && yv.Sym == nil {
				return StrV{S: xv.S + yv.S}
			}
			return StrV{Sym: append(append([]*Term(nil), w.strBytes(xv)...), w.strBytes(yv)...)}
		case token.EQL:
			return w.strEq(xv, yv)
		case token.NEQ:
			return tt.Not(w.strEq(xv, yv))
		case token.LSS, token.LEQ, token.GTR, token.GEQ:
			if xv.Sym != nil || yv.Sym != nil {
				return w.strCmpSym(op, xv, yv)
			}
			switch op {
			case token.LSS:
				return tt.Bool(xv.S < yv.S)
			case token.LEQ:
				return tt.Bool(xv.S <= yv.S)
			case token.GTR:
				return tt.Bool(xv.S > yv.S)
			case token.GEQ:
				return tt.Bool(xv.S >= yv.S)
			}
		}
	}
	switch op {
	case token.EQL:
		return w.equals(t, x, y)
	case token.NEQ:
		return tt.Not(w.equals(t, x, y))
	}
	panic(fmt.Sprintf("binop %v on %T (%v)", op, x, t))
}

func (w *Worker) strBytes(s StrV) []*Term {
	if s.Sym != nil {
		return s.Sym
	}
	r := make([]*Term, len(s.S))
	for i := range r {
		r[i] = w.tt.BV(8, uint64(s.S[i]))
	}
	return r
}

func (w *Worker) strEq(a, b StrV) *Term {
	if a.Len() != b.Len() {
		return w.tt.Bool(false)
	}
	if a.Sym == nil && b.Sym == nil {
		return w.tt.Bool(a.S == b.S)
	}
	ab, bb := w.strBytes(a), w.strBytes(b)
	var cs []*Term
	for i := range ab {
		cs = append(cs, w.tt.Eq(ab[i], bb[i]))
	}
	return w.tt.And(cs...)
}

func (w *Worker) strCmpSym(op token.Token, a, b StrV) *Term {
	tt := w.tt
	ab, bb := w.strBytes(a), w.strBytes(b)
	// lexicographic less-than
	var lt func(i int) *Term
	var eqAll func(i int) *Term
	lt = func(i int) *Term {
		if i >= len(ab) {
			return tt.Bool(i < len(bb))
		}
		if i >= len(bb) {
			return tt.Bool(false)
		}
		return tt.Or(tt.BVUlt(ab[i], bb[i]), tt.And(tt.Eq(ab[i], bb[i]), lt(i+1)))
	}
	eqAll = func(i int) *Term { return w.strEq(a, b) }
	l := lt(0)
	e := eqAll(0)
	switch op {
	case token.LSS:
		return l
	case token.LEQ:
		return tt.Or(l, e)
	case token.GTR:
		return tt.Not(tt.Or(l, e))
	default:
		return tt.Not(l)
	}
}

func (w *Worker) intBinop(op token.Token, bt *types.Basic, x, y *Term) Value {
	tt := w.tt
	signed := bt.Info()&types.IsUnsigned == 0
	wd := x.Sort.W
	switch op {
	case token.SHL, token.SHR:
		// y may have a different width/type; caller passes raw. normalise count.
		return w.shift(op, signed, x, y, true)
	}
	if y.Sort.W != wd {
		panic(fmt.Sprintf("int binop width mismatch %d %d", wd, y.Sort.W))
	}
	switch op {
	case token.ADD:
		return tt.BVAdd(x, y)
	case token.SUB:
		return tt.BVSub(x, y)
	case token.MUL:
		return tt.BVMul(x, y)
	case token.QUO, token.REM:
		if !w.branch(tt.Not(tt.Eq(y, tt.BV(wd, 0)))) {
			w.runtimePanic("integer divide by zero")
		}
		if op == token.QUO {
			if signed {
				return tt.bvBin(OpBVSDiv, x, y)
			}
			return tt.bvBin(OpBVUDiv, x, y)
		}
		if signed {
			return tt.bvBin(OpBVSRem, x, y)
		}
		return tt.bvBin(OpBVURem, x, y)
	case token.AND:
		return tt.BVAnd(x, y)
	case token.OR:
		return tt.BVOr(x, y)
	case token.XOR:
		return tt.BVXor(x, y)
	case token.AND_NOT:
		return tt.BVAnd(x, tt.BVNot(y))
	case token.EQL:
		return tt.Eq(x, y)
	case token.NEQ:
		return tt.Not(tt.Eq(x, y))
	case token.LSS:
		if signed {
			return tt.BVSlt(x, y)
		}
		return tt.BVUlt(x, y)
	case token.LEQ:
		if signed {
			return tt.BVSle(x, y)
		}
		return tt.BVUle(x, y)
	case token.GTR:
		if signed {
			return tt.BVSlt(y, x)
		}
		return tt.BVUlt(y, x)
	case token.GEQ:
		if signed {
			return tt.BVSle(y, x)
		}
		return tt.BVUle(y, x)
	}
	panic(fmt.Sprintf("int binop %v", op))
}

// shift: y's signedness is unknown here; SSA guarantees the count is either
// unsigned or (Go >= 1.13) a signed value that panics when negative. We get the
// type from the ssa.BinOp in binopShift; this fallback treats y as unsigned.
func (w *Worker) shift(op token.Token, signedX bool, x, y *Term, ySignedUnknown bool) *Term {
	tt := w.tt
	wd := x.Sort.W
	// normalise count to width wd, saturating
	var cnt *Term
	if y.Sort.W == wd {
		cnt = y
	} else if y.Sort.W < wd {
		cnt = tt.BVZext(y, wd)
	} else {
		big := tt.BVUle(tt.BV(y.Sort.W, uint64(wd)), y)
		cnt = tt.Ite(big, tt.BV(wd, uint64(wd)), tt.BVExtract(y, wd-1, 0))
	}
	switch op {
	case token.SHL:
		return tt.BVShl(x, cnt)
	default:
		if signedX {
			return tt.BVAshr(x, cnt)
		}
		return tt.BVLshr(x, cnt)
	}
}

func (w *Worker) equals(t types.Type, x, y Value) *Term {
	tt := w.tt
	switch xv := x.(type) {
	case *Term:
		yv := y.(*Term)
		if xv.Sort.K == SReal || xv.Sort.K == SFP {
			return w.fEq(xv, yv)
		}
		return tt.Eq(xv, yv)
	case ComplexV:
		yv := y.(ComplexV)
		return tt.And(w.fEq(xv.Re, yv.Re), w.fEq(xv.Im, yv.Im))
	case StrV:
		return w.strEq(xv, y.(StrV))
	case Ptr:
		yv := y.(Ptr)
		if xv.Sym != nil || yv.Sym != nil {
			if xv.Sym != nil {
				xv = w.concretizePtr(xv)
			}
			if yv.Sym != nil {
				yv = w.concretizePtr(yv)
			}
		}
		if xv.B != nil && yv.B != nil {
			return tt.Bool(xv.B == yv.B && xv.Idx == yv.Idx || (xv.B.ID == -1 || yv.B.ID == -1) && xv.Slot == yv.Slot)
		}
		return tt.Bool(xv.Slot == yv.Slot)
	case StructV:
		yv := y.(StructV)
		st := t.Underlying().(*types.Struct)
		var cs []*Term
		for i := range xv {
			if st.Field(i).Name() == "_" {
				continue
			}
			cs = append(cs, w.equals(st.Field(i).Type(), xv[i], yv[i]))
		}
		return tt.And(cs...)
	case ArrayV:
		yv := y.(ArrayV)
		et := t.Underlying().(*types.Array).Elem()
		var cs []*Term
		for i := range xv {
			cs = append(cs, w.equals(et, xv[i], yv[i]))
		}
		return tt.And(cs...)
	case IfaceV:
		yv, ok := y.(IfaceV)
		if !ok {
			panic(fmt.Sprintf("iface compared with %T", y))
		}
		if xv.T == nil || yv.T == nil {
			return tt.Bool(xv.T == nil && yv.T == nil)
		}
		if !types.Identical(xv.T, yv.T) {
			return tt.Bool(false)
		}
		if !types.Comparable(xv.T) {
			panic(targetPanic{v: StrV{S: "runtime error: comparing uncomparable type " + xv.T.String()}, runtime: true, msg: "comparing uncomparable type"})
		}
		return w.equals(xv.T, xv.V, yv.V)
	case *MapV:
		yv, _ := y.(*MapV)
		return tt.Bool(xv == yv)
	case *ChanV:
		yv, _ := y.(*ChanV)
		return tt.Bool(xv == yv)
	case SliceV:
		// only comparison with nil is legal
		if yv, ok := y.(SliceV); ok && yv.Nil && yv.B == nil {
			return tt.Bool(xv.Nil)
		}
		if xv.Nil && xv.B == nil {
			return tt.Bool(y.(SliceV).Nil)
		}
	case *ssa.Function:
		yv, _ := y.(*ssa.Function)
		if yv == nil {
			if _, isC := y.(*ClosureV); isC {
				return tt.Bool(false)
			}
		}
		return tt.Bool(xv == yv)
	case *ClosureV:
		if yf, ok := y.(*ssa.Function); ok && yf == nil {
			return tt.Bool(xv == nil)
		}
		yv, _ := y.(*ClosureV)
		return tt.Bool(xv == yv)
	case nil:
		return tt.Bool(y == nil)
	}
	panic(fmt.Sprintf("equals on %T / %T", x, y))
}

// ---- unop ----

func (w *Worker) unop(instr *ssa.UnOp, x Value) Value {
	tt := w.tt
	switch instr.Op {
	case token.ARROW:
		ch := x.(*ChanV)
		v, ok := w.chanRecv(ch, instr.X.Type().Underlying().(*types.Chan).Elem())
		if instr.CommaOk {
			return TupleV{v, tt.Bool(ok)}
		}
		return v
	case token.MUL:
		return w.load(x.(Ptr))
	case token.SUB:
		switch xv := x.(type) {
		case *Term:
			if xv.Sort.K == SBV {
				return tt.BVNeg(xv)
			}
			return w.fNeg(xv)
		case ComplexV:
			return ComplexV{w.fNeg(xv.Re), w.fNeg(xv.Im)}
		}
	case token.NOT:
		return tt.Not(x.(*Term))
	case token.XOR:
		return tt.BVNot(x.(*Term))
	}
	panic(fmt.Sprintf("unop %v on %T", instr.Op, x))
}

// ---- conversions ----

func (w *Worker) conv(tdst, tsrc types.Type, x Value) Value {
	tt := w.tt
	ud, us := tdst.Underlying(), tsrc.Underlying()
	if _, ok := ud.(*types.TypeParam); ok {
		panic(unsupported("conversion to type parameter"))
	}
	switch us := us.(type) {
	case *types.Pointer:
		if b, ok := ud.(*types.Basic); ok && b.Kind() == types.UnsafePointer {
			return x
		}
		return x
	case *types.Slice:
		// []byte/[]rune -> string
		if b, ok := ud.(*types.Basic); ok && b.Info()&types.IsString != 0 {
			s := w.concGeom(x.(SliceV))
			n := w.concInt(s.Len, "[]byte to string")
			eb := us.Elem().Underlying().(*types.Basic)
			if eb.Kind() == types.Uint8 {
				allc := true
				bs := make([]*Term, n)
				for i := 0; i < n; i++ {
					bs[i] = s.B.Cells[s.Off+i].(*Term)
					if !bs[i].IsConst() {
						allc = false
					}
				}
				if allc {
					raw := make([]byte, n)
					for i := range raw {
						raw[i] = byte(bs[i].U)
					}
					return StrV{S: string(raw)}
				}
				return StrV{Sym: bs}
			}
			// []rune
			rs := make([]rune, n)
			for i := 0; i < n; i++ {
				c := w.concretize(s.B.Cells[s.Off+i].(*Term), "rune to string")
				rs[i] = rune(signExt(c.U, 32))
			}
			return StrV{S: string(rs)}
		}
		return x
	case *types.Basic:
		info := us.Info()
		switch {
		case us.Kind() == types.UnsafePointer:
			if db, ok := ud.(*types.Basic); ok && db.Kind() == types.Uintptr {
				return w.ptrToUintptr(x.(Ptr))
			}
			if pt, ok := ud.(*types.Pointer); ok {
				if _, isArr := pt.Elem().Underlying().(*types.Array); isArr {
					return w.reinterpretArrayPtr(x.(Ptr), pt.Elem())
				}
			}
			return x // to *T
		case info&types.IsString != 0:
			s := x.(StrV)
			if ds, ok := ud.(*types.Slice); ok {
				eb := ds.Elem().Underlying().(*types.Basic)
				if eb.Kind() == types.Uint8 {
					bs := w.strBytes(s)
					sl := w.newSlice(ds.Elem(), len(bs), len(bs))
					for i, b := range bs {
						sl.B.Cells[i] = b
					}
					return sl
				}
				if s.Sym != nil {
					panic(unsupported("symbolic string to []rune"))
				}
				rs := []rune(s.S)
				sl := w.newSlice(ds.Elem(), len(rs), len(rs))
				for i, r := range rs {
					sl.B.Cells[i] = tt.BV(32, uint64(r))
				}
				return sl
			}
			return x
		case info&types.IsInteger != 0:
			xt := x.(*Term)
			db, ok := ud.(*types.Basic)
			if !ok {
				panic(fmt.Sprintf("conv int to %v", tdst))
			}
			dinfo := db.Info()
			switch {
			case db.Kind() == types.UnsafePointer:
				return w.uintptrToPtr(xt)
			case dinfo&types.IsInteger != 0:
				return tt.BVResize(xt, w.intWidth(db), info&types.IsUnsigned == 0)
			case dinfo&types.IsFloat != 0:
				signed := info&types.IsUnsigned == 0
				if w.isF() {
					if xt.IsConst() {
						var f float64
						if signed {
							f = float64(signExt(xt.U, xt.Sort.W))
						} else {
							f = float64(xt.U)
						}
						if db.Kind() == types.Float32 {
							f = float64(float32(f))
						}
						return tt.FPConst(fpW(db.Kind() == types.Float32), f)
					}
					op := OpSBV2FP
					if !signed {
						op = OpUBV2FP
					}
					return tt.intern(Term{Op: op, Sort: Sort{SFP, fpW(db.Kind() == types.Float32)}, Args: []*Term{xt}})
				}
				r := tt.BV2Real(xt, signed)
				if r.IsConst() && db.Kind() == types.Float32 {
					return tt.Real(float64(float32(r.F)))
				}
				return r
			case dinfo&types.IsString != 0:
				c := w.concretize(xt, "int to string")
				return StrV{S: string(rune(signExt(c.U, c.Sort.W)))}
			case dinfo&types.IsComplex != 0:
				panic(unsupported("int to complex conversion"))
			}
		case info&types.IsFloat != 0:
			xt := x.(*Term)
			db, ok := ud.(*types.Basic)
			if !ok {
				panic(fmt.Sprintf("conv float to %v", tdst))
			}
			dinfo := db.Info()
			switch {
			case dinfo&types.IsFloat != 0:
				if xt.IsConst() {
					f := xt.F
					if db.Kind() == types.Float32 {
						f = float64(float32(f))
					}
					return w.fconst(db.Kind() == types.Float32, f)
				}
				if w.isF() {
					dw := fpW(db.Kind() == types.Float32)
					if dw == xt.Sort.W {
						return xt
					}
					return tt.intern(Term{Op: OpFPCvt, Sort: Sort{SFP, dw}, Args: []*Term{xt}})
				}
				return xt // R+: float32 rounding not modelled
			case dinfo&types.IsInteger != 0:
				if xt.IsConst() {
					wd := w.intWidth(db)
					f := xt.F
					if dinfo&types.IsUnsigned != 0 {
						return tt.BV(wd, uint64(f))
					}
					return tt.BV(wd, uint64(int64(f)))
				}
				if !w.isF() {
					w.stats.Stubs["R+ model: float->int conversion is exact truncation (no overflow/NaN cases)"]++
					return tt.intern(Term{Op: OpRTruncBV, Sort: BVSort(w.intWidth(db)), Args: []*Term{xt}})
				}
				panic(unsupported("conversion of symbolic float to integer"))
			}
		case info&types.IsComplex != 0:
			xc := x.(ComplexV)
			if isF32(tdst) != isF32(tsrc) && xc.Re.IsConst() && xc.Im.IsConst() && isF32(tdst) {
				return ComplexV{w.fconst(true, float64(float32(xc.Re.F))), w.fconst(true, float64(float32(xc.Im.F)))}
			}
			if w.isF() && isF32(tdst) != isF32(tsrc) {
				dw := fpW(isF32(tdst))
				cv := func(t *Term) *Term {
					if t.IsConst() {
						return tt.FPConst(dw, t.F)
					}
					return tt.intern(Term{Op: OpFPCvt, Sort: Sort{SFP, dw}, Args: []*Term{t}})
				}
				return ComplexV{cv(xc.Re), cv(xc.Im)}
			}
			return x
		case info&types.IsBoolean != 0:
			return x
		}
	case *types.Signature, *types.Struct, *types.Array, *types.Map, *types.Chan, *types.Interface:
		return x
	}
	panic(unsupported("conversion %v -> %v", tsrc, tdst))
}

func (w *Worker) ptrToUintptr(p Ptr) Value {
	if p.Sym != nil {
		p = w.concretizePtr(p)
	}
	if p.IsNil() {
		return w.tt.BV(64, 0)
	}
	if p.B == nil || p.B.ID < 0 {
		panic(unsupported("address of a non-slice cell as uintptr"))
	}
	return w.tt.BV(64, uint64(p.B.ID)<<36+uint64(p.Idx)*uint64(p.B.ESize)+1<<35)
}

func (w *Worker) uintptrToPtr(t *Term) Value {
	panic(unsupported("uintptr to unsafe.Pointer"))
}

var _ = utf8.RuneError

// reinterpretArrayPtr models (*[..]T)(unsafe.Pointer(p)): a view of the same
// flat cells with another array shape.
func (w *Worker) reinterpretArrayPtr(p Ptr, T types.Type) Value {
	if p.Sym != nil {
		p = w.concretizePtr(p)
	}
	if p.IsNil() {
		return p
	}
	n, leaf := flatArrayInfo(T)
	if leaf == nil {
		panic(unsupported("unsafe reinterpretation as %v", T))
	}
	var cells []Value
	switch cur := (*p.Slot).(type) {
	case ArrayV:
		cells = leafCells(cur)
	default:
		if p.B != nil && p.B.ID >= 0 && p.Idx+n <= len(p.B.Cells) {
			cells = p.B.Cells[p.Idx:]
		}
	}
	if cells == nil || len(cells) < n {
		panic(unsupported("unsafe reinterpretation as %v of non-contiguous or too short storage", T))
	}
	if _, ok := cells[0].(*Term); !ok {
		panic(unsupported("unsafe reinterpretation over non-scalar cells"))
	}
	w.stats.Stubs["unsafe array reinterpretation modelled as a view of the same cells"]++
	slot := new(Value)
	*slot = arrayView(T, cells[:n:len(cells)][:n])
	return Ptr{Slot: slot, B: p.B, Idx: p.Idx}
}
