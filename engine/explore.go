package main

import (
	"math"
	"strconv"
	"fmt"
	"go/types"
	"os"
	"sort"
	"strings"
	"sync"
	"time"

	"golang.org/x/tools/go/ssa"
)

type Decision struct {
	Kind byte // 'b' branch, 'c' choose, 'v' concretize
	Val  int64
}

type Job struct {
	Prefix []Decision
}

type Config struct {
	FloatModel   string // "R" or "F"
	SolverBin    string
	SoftMS       int
	MaxSteps     int
	MaxConcr     int // cap on values enumerated when concretizing
	Merge        bool
	Workers      int
	MaxPaths     int
	Verbose      bool
	SolverLog    string
	WallDeadline time.Time
	FPExactAdd   bool
	SymSlices    bool
	DivZeroPrune bool
	PoolReuse    bool
	PoolHavoc    bool
	Witnesses    int
}

type InputVar struct {
	Name string
	T    *Term
	Kind string // "int","uint","byte","bool","float","float32"
	W    int
}

type Violation struct {
	Harness string
	Msg     string
	Kind    string // "assert", "panic", "fault"
	Tape    *Tape
	Case    string
	PathLen int
}

type Inconclusive struct {
	Harness string
	Reason  string
	Case    string
	Count   int
}

type Sample struct {
	Case       string `json:"case"`
	PathConds  int    `json:"path_conditions"`
	Obligation string `json:"obligation"`
	Term       string `json:"term,omitempty"`
	Result     string `json:"result"`
}

type Stats struct {
	Paths         int
	Decisions     int
	Obligations   int
	Discharged    int
	TrivialObl    int
	Queries       int
	QSat          int
	QUnsat        int
	QUnknown      int
	QErrors       int
	QSlow         int
	SolverSec     float64
	Steps         int64
	InfeasibleEnd int
	Reached       map[string]int
	Cases         map[string]int
	Funcs         map[string]int
	Stubs         map[string]int
	Samples       []Sample
	MergeOK       int
	CacheHits     int
	MergeAbort    int
}

func newStats() *Stats {
	return &Stats{Reached: map[string]int{}, Cases: map[string]int{}, Funcs: map[string]int{}, Stubs: map[string]int{}}
}

func (s *Stats) add(o *Stats) {
	s.Paths += o.Paths
	s.Decisions += o.Decisions
	s.Obligations += o.Obligations
	s.Discharged += o.Discharged
	s.TrivialObl += o.TrivialObl
	s.Steps += o.Steps
	s.InfeasibleEnd += o.InfeasibleEnd
	s.Queries += o.Queries
	s.QSat += o.QSat
	s.QUnsat += o.QUnsat
	s.QUnknown += o.QUnknown
	s.QErrors += o.QErrors
	s.QSlow += o.QSlow
	s.SolverSec += o.SolverSec
	s.MergeOK += o.MergeOK
	s.CacheHits += o.CacheHits
	s.MergeAbort += o.MergeAbort
	for k, v := range o.Reached {
		s.Reached[k] += v
	}
	for k, v := range o.Cases {
		s.Cases[k] += v
	}
	for k, v := range o.Funcs {
		if v > s.Funcs[k] {
			s.Funcs[k] = v
		}
	}
	for k, v := range o.Stubs {
		s.Stubs[k] += v
	}
	for _, sm := range o.Samples {
		if len(s.Samples) < 12 {
			s.Samples = append(s.Samples, sm)
		}
	}
}

type Explorer struct {
	prog    *ssa.Program
	fn      *ssa.Function
	name    string
	cfg     Config
	mu      sync.Mutex
	cond    *sync.Cond
	queue   []Job
	active  int
	stop    bool
	started int

	stats        *Stats
	violations   []Violation
	inconclusive []Inconclusive
	vioSeen      map[string]bool
	vioCount     map[string]int
	witnesses    []Witness
}

func NewExplorer(prog *ssa.Program, fn *ssa.Function, cfg Config) *Explorer {
	e := &Explorer{prog: prog, fn: fn, name: fn.Name(), cfg: cfg, stats: newStats(), vioSeen: map[string]bool{}, vioCount: map[string]int{}}
	e.cond = sync.NewCond(&e.mu)
	return e
}

func (e *Explorer) push(j Job) {
	e.mu.Lock()
	e.queue = append(e.queue, j)
	e.mu.Unlock()
	e.cond.Signal()
}

func (e *Explorer) pop() (Job, bool) {
	e.mu.Lock()
	defer e.mu.Unlock()
	for {
		if e.stop {
			return Job{}, false
		}
		if n := len(e.queue); n > 0 {
			j := e.queue[n-1]
			e.queue = e.queue[:n-1]
			e.active++
			e.started++
			return j, true
		}
		if e.active == 0 {
			e.cond.Broadcast()
			return Job{}, false
		}
		e.cond.Wait()
	}
}

func (e *Explorer) done() {
	e.mu.Lock()
	e.active--
	if e.active == 0 && len(e.queue) == 0 {
		e.cond.Broadcast()
	}
	e.mu.Unlock()
}

func (e *Explorer) Run() {
	e.push(Job{})
	var wg sync.WaitGroup
	n := e.cfg.Workers
	if n < 1 {
		n = 1
	}
	for i := 0; i < n; i++ {
		wg.Add(1)
		go func(id int) {
			defer wg.Done()
			w := newWorker(e, id)
			defer w.close()
			for {
				j, ok := e.pop()
				if !ok {
					break
				}
				w.runPath(j)
				e.done()
				if w.tt.nextID > 3000000 {
					w.resetTerms()
				}
			}
			e.mu.Lock()
			w.flushSolverStats()
			e.stats.add(w.stats)
			e.mu.Unlock()
		}(i)
	}
	wg.Wait()
}

func (e *Explorer) addViolation(v Violation) {
	e.mu.Lock()
	defer e.mu.Unlock()
	// keep a few counterexamples per message (from different cases) so that
	// replay can try more than one
	k := v.Kind + "|" + v.Msg
	kc := k + "|" + v.Case
	if e.vioSeen[kc] || e.vioCount[k] >= 6 {
		return
	}
	e.vioSeen[kc] = true
	e.vioCount[k]++
	e.violations = append(e.violations, v)
}

func (e *Explorer) addInconclusive(reason, cs string) {
	e.mu.Lock()
	defer e.mu.Unlock()
	for i := range e.inconclusive {
		if e.inconclusive[i].Reason == reason {
			e.inconclusive[i].Count++
			return
		}
	}
	if len(e.inconclusive) < 30 {
		e.inconclusive = append(e.inconclusive, Inconclusive{Harness: e.name, Reason: reason, Case: cs, Count: 1})
	} else {
		e.inconclusive[29].Count++
	}
}

// ---------------- worker ----------------

type Worker struct {
	id     int
	ex     *Explorer
	tt     *TermTable
	solver *Solver
	stats  *Stats
	cfg    Config

	// per path
	prefix   []Decision
	trail    []Decision
	pc       []*Term
	pcSet    map[*Term]bool
	inputs   []InputVar
	inputSet map[string]bool
	chooses  []ChooseRec
	steps    int
	globals  map[*ssa.Global]*Value
	nextBack int
	depth    int
	onceDone map[*Value]bool
	merging  int
	journal  []journalEnt
	mergeDepthAbort bool
	inInit          bool
	lazyDone        map[string]bool
	lazyForce       bool
	mapIters        map[*Value]*mapIterState
	gmpSeq          int
	observes        []obsRec
	constCache      map[*ssa.Const]Value
	randSeq         int
	poisoned        bool // this path took a zero-float-divisor side (value outside the finite-real model)
	stubs           map[string]Value
	models          []*evalModel
	CacheHits       int
	callStack       []*ssa.Function
	recoverFrames   []*frame
	taskSeq         int
	curTask         int
	sched           *scheduler
	schedUsed       bool
	pools           map[*Value][]poolItem
	timeSeq         int
	lastSince       *Term
}

type ChooseRec struct {
	Name string
	Val  int64
}

type pathEnd struct{ reason string }
type budgetErr struct{ msg string }

func newWorker(e *Explorer, id int) *Worker {
	w := &Worker{id: id, ex: e, cfg: e.cfg, stats: newStats()}
	w.tt = NewTermTable()
	w.constCache = map[*ssa.Const]Value{}
	w.solver = NewSolver(e.cfg.SolverBin, w.tt, e.cfg.SoftMS)
	if e.cfg.SolverLog != "" && id == 0 {
		f, err := os.Create(e.cfg.SolverLog)
		if err == nil {
			w.solver.logw = f
		}
	}
	return w
}

func (w *Worker) flushSolverStats() {
	s := w.solver
	w.stats.Queries += s.Queries
	w.stats.QSat += s.Sat
	w.stats.QUnsat += s.Unsat
	w.stats.QUnknown += s.Unknown
	w.stats.QErrors += s.Errors
	w.stats.QSlow += s.SlowOK
	w.stats.SolverSec += s.SolverSec
	s.Queries, s.Sat, s.Unsat, s.Unknown, s.Errors, s.SolverSec, s.SlowOK = 0, 0, 0, 0, 0, 0, 0
}

func (w *Worker) close() { w.solver.Close() }

func (w *Worker) resetTerms() {
	w.flushSolverStats()
	w.solver.Close()
	w.tt = NewTermTable()
	w.constCache = map[*ssa.Const]Value{}
	w.models = nil
	w.solver = NewSolver(w.cfg.SolverBin, w.tt, w.cfg.SoftMS)
}

func (w *Worker) caseString() string {
	var parts []string
	for _, c := range w.chooses {
		parts = append(parts, fmt.Sprintf("%s=%d", c.Name, c.Val))
	}
	return strings.Join(parts, ",")
}

func (w *Worker) runPath(j Job) {
	w.prefix = j.Prefix
	w.trail = w.trail[:0]
	w.pc = w.pc[:0]
	w.pcSet = map[*Term]bool{}
	w.inputs = w.inputs[:0]
	w.inputSet = map[string]bool{}
	w.chooses = w.chooses[:0]
	w.steps = 0
	w.globals = map[*ssa.Global]*Value{}
	w.nextBack = 0
	w.depth = 0
	w.lazyDone = nil
	w.lazyForce = false
	w.mapIters = nil
	w.gmpSeq = 0
	w.observes = w.observes[:0]
	w.randSeq = 0
	w.poisoned = false
	w.stubs = nil
	w.taskSeq, w.curTask = 0, 0
	w.cfg = w.ex.cfg
	w.models = nil
	w.callStack = w.callStack[:0]
	w.onceDone = map[*Value]bool{}
	w.merging = 0
	w.journal = nil

	if !w.cfg.WallDeadline.IsZero() && time.Now().After(w.cfg.WallDeadline) {
		w.ex.addInconclusive("wall-clock budget exhausted before all paths were explored", "")
		return
	}
	if w.cfg.MaxPaths > 0 && w.ex.started > w.cfg.MaxPaths {
		w.ex.addInconclusive(fmt.Sprintf("path budget %d exhausted", w.cfg.MaxPaths), "")
		return
	}

	completed := false
	w.sched = nil
	w.schedUsed = false
	w.pools = nil
	w.timeSeq, w.lastSince = 0, nil
	func() {
		defer func() {
			r := recover()
			w.schedFinish()
			if r == nil {
				return
			}
			switch x := r.(type) {
			case pathEnd:
				w.stats.InfeasibleEnd++
			case unsupportedErr:
				st := ""
				for i := len(w.callStack) - 1; i >= 0 && i >= len(w.callStack)-6; i-- {
					st += " <- " + w.callStack[i].String()
				}
				w.ex.addInconclusive("unsupported: "+x.msg+st, w.caseString())
			case budgetErr:
				w.ex.addInconclusive("unwinding/budget: "+x.msg, w.caseString())
			case engineErr:
				w.ex.addInconclusive("engine error: "+x.msg, w.caseString())
			case mergeAbort:
				w.ex.addInconclusive("engine error: stray merge abort: "+x.reason, w.caseString())
			case targetPanic:
				// uncaught panic escaping the harness
				msg := w.panicMessage(x)
				kind := "panic"
				if x.runtime {
					kind = "fault"
				}
				w.reportViolation(kind, "uncaught panic in harness: "+msg, nil)
				completed = true
				// the path ends in a reported violation: never a witness
				// (its native run panics by construction)
				w.poisoned = true
			default:
				panic(r)
			}
		}()
		w.initPackages()
		w.callFunction(w.ex.fn, nil, nil)
		completed = true
	}()
	w.stats.Steps += int64(w.steps)
	w.stats.Decisions += len(w.trail)
	if completed {
		w.stats.Paths++
		w.stats.Cases[w.caseString()]++
		w.maybeWitness()
	}
}

func (w *Worker) reportViolation(kind, msg string, model Model) {
	if model == nil {
		// need a model of the current path
		res, m := w.solver.Check(w.pc, w.inputTerms())
		if res != "sat" {
			w.ex.addInconclusive("violation path without model: "+msg, w.caseString())
			return
		}
		model = m
	}
	tape := w.buildTape(model)
	w.ex.addViolation(Violation{Harness: w.ex.name, Msg: msg, Kind: kind, Tape: tape, Case: w.caseString(), PathLen: len(w.pc)})
}

func (w *Worker) inputTerms() []*Term {
	var ts []*Term
	for _, in := range w.inputs {
		ts = append(ts, in.T)
	}
	return ts
}

// ---- decisions ----

func (w *Worker) nextPrefix(kind byte) (Decision, bool) {
	pos := len(w.trail)
	if pos < len(w.prefix) {
		d := w.prefix[pos]
		if d.Kind != kind {
			panic(fmt.Sprintf("trail divergence: have %c want %c at %d", d.Kind, kind, pos))
		}
		w.trail = append(w.trail, d)
		return d, true
	}
	return Decision{}, false
}

func (w *Worker) forkJob(d Decision) {
	p := make([]Decision, len(w.trail)+1)
	copy(p, w.trail)
	p[len(w.trail)] = d
	w.ex.push(Job{Prefix: p})
}

func (w *Worker) addPC(c *Term) {
	if c.IsConst() {
		if !c.B {
			panic(pathEnd{"false path condition"})
		}
		return
	}
	if w.pcSet[c] {
		return
	}
	if c.Op == OpAnd {
		for _, a := range c.Args {
			w.addPC(a)
		}
		return
	}
	w.pcSet[c] = true
	w.pc = append(w.pc, c)
	if len(w.models) > 0 {
		keep := w.models[:0]
		for _, m := range w.models {
			if e := m.eval(c); e.ok && e.b {
				keep = append(keep, m)
			}
		}
		w.models = keep
	}
}

// feasible reports whether pc ∧ c is satisfiable (unknown counts as feasible).
func (w *Worker) feasible(c *Term) bool {
	if c.IsConst() {
		return c.B
	}
	if w.pcSet[c] {
		return true
	}
	if w.pcSet[w.tt.Not(c)] {
		return false
	}
	for _, m := range w.models {
		if e := m.eval(c); e.ok && e.b {
			w.stats.CacheHits++
			return true
		}
	}
	as := append(append([]*Term(nil), w.pc...), c)
	res, model := w.solver.Check(as, w.inputTerms())
	if res == "sat" && model != nil {
		if len(w.models) >= 4 {
			w.models = w.models[1:]
		}
		w.models = append(w.models, w.newEvalModel(model))
	}
	return res != "unsat"
}

// branch decides a symbolic condition, forking when both sides are feasible.
func (w *Worker) branch(c *Term) bool {
	if c.IsConst() {
		return c.B
	}
	if w.pcSet[c] {
		return true
	}
	nc := w.tt.Not(c)
	if w.pcSet[nc] {
		return false
	}
	if w.merging > 0 {
		// inside a merge arm: no decisions are recorded; a branch whose two
		// sides are both feasible cannot be merged here
		t := w.feasible(c)
		if t && w.feasible(nc) {
			panic(mergeAbort{"nested symbolic branch"})
		}
		if t {
			w.addPC(c)
			return true
		}
		w.addPC(nc)
		return false
	}
	if d, ok := w.nextPrefix('b'); ok {
		if d.Val == 1 {
			w.addPC(c)
			return true
		}
		w.addPC(nc)
		return false
	}
	t := w.feasible(c)
	var f bool
	if !t {
		f = true
	} else {
		f = w.feasible(nc)
	}
	switch {
	case t && f:
		w.forkJob(Decision{'b', 0})
		w.trail = append(w.trail, Decision{'b', 1})
		w.addPC(c)
		return true
	case t:
		// no decision recorded: the other side is infeasible; but keep the fact
		w.trail = append(w.trail, Decision{'b', 1})
		w.addPC(c)
		return true
	default:
		w.trail = append(w.trail, Decision{'b', 0})
		w.addPC(nc)
		return false
	}
}

// choose is a case split over [lo,hi].
func (w *Worker) choose(name string, lo, hi int64) int64 {
	// repeated names on one path are numbered name, name#2, name#3, ...
	cnt := 1
	for _, c := range w.chooses {
		if c.Name == name || strings.HasPrefix(c.Name, name+"#") {
			cnt++
		}
	}
	if cnt > 1 {
		name = fmt.Sprintf("%s#%d", name, cnt)
	}
	if w.merging > 0 {
		panic(mergeAbort{"choose inside merge"})
	}
	if d, ok := w.nextPrefix('c'); ok {
		w.chooses = append(w.chooses, ChooseRec{name, d.Val})
		return d.Val
	}
	if hi < lo {
		panic(pathEnd{"empty choose"})
	}
	for v := hi; v > lo; v-- {
		w.forkJob(Decision{'c', v})
	}
	w.trail = append(w.trail, Decision{'c', lo})
	w.chooses = append(w.chooses, ChooseRec{name, lo})
	return lo
}

// concretize forks over the feasible values of t.
func (w *Worker) concretize(t *Term, why string) *Term {
	if t.IsConst() {
		return t
	}
	if w.merging > 0 {
		panic(mergeAbort{"concretization inside merge"})
	}
	if d, ok := w.nextPrefix('v'); ok {
		c := w.tt.BV(t.Sort.W, uint64(d.Val))
		if t.Sort.K == SBool {
			c = w.tt.Bool(d.Val != 0)
		}
		w.addPC(w.tt.Eq(t, c))
		return c
	}
	if t.Sort.K != SBV && t.Sort.K != SBool {
		panic(unsupported("concretize non-integer term (%s)", why))
	}
	var vals []*Term
	as := append([]*Term(nil), w.pc...)
	for {
		res, m := w.solver.Check(as, []*Term{t})
		if res == "unsat" {
			break
		}
		if res != "sat" {
			panic(budgetErr{"solver unknown while concretizing " + why})
		}
		var c *Term
		if t.Sort.K == SBool {
			c = w.tt.Bool(m[strings.Trim(t.ref(), "|")] == "true")
		} else {
			u, ok := modelBV(m[strings.Trim(t.ref(), "|")])
			if !ok {
				panic(budgetErr{"no model value while concretizing " + why})
			}
			c = w.tt.BV(t.Sort.W, u)
		}
		vals = append(vals, c)
		if len(vals) > w.cfg.MaxConcr {
			panic(budgetErr{fmt.Sprintf("more than %d feasible values while concretizing %s (%s)", w.cfg.MaxConcr, why, t.String())})
		}
		as = append(as, w.tt.Not(w.tt.Eq(t, c)))
	}
	if len(vals) == 0 {
		panic(pathEnd{"infeasible at concretization"})
	}
	sort.Slice(vals, func(i, j int) bool { return signExt(vals[i].U, vals[i].Sort.W) < signExt(vals[j].U, vals[j].Sort.W) })
	toDec := func(c *Term) Decision {
		if c.Sort.K == SBool {
			if c.B {
				return Decision{'v', 1}
			}
			return Decision{'v', 0}
		}
		return Decision{'v', int64(c.U)}
	}
	for i := len(vals) - 1; i >= 1; i-- {
		w.forkJob(toDec(vals[i]))
	}
	w.trail = append(w.trail, toDec(vals[0]))
	w.addPC(w.tt.Eq(t, vals[0]))
	return vals[0]
}

func (w *Worker) concInt(t *Term, why string) int {
	c := w.concretize(t, why)
	return int(signExt(c.U, c.Sort.W))
}

// ---- obligations ----

func (w *Worker) assume(c *Term) {
	if c.IsConst() {
		if !c.B {
			panic(pathEnd{"assume false"})
		}
		return
	}
	if !w.feasible(c) {
		panic(pathEnd{"assumption infeasible"})
	}
	w.addPC(c)
}

func (w *Worker) assertObl(c *Term, msg string) {
	w.stats.Obligations++
	if c.IsConst() && c.B {
		w.stats.Discharged++
		w.stats.TrivialObl++
		return
	}
	if w.pcSet[c] {
		w.stats.Discharged++
		w.stats.TrivialObl++
		return
	}
	as := append(append([]*Term(nil), w.pc...), w.tt.Not(c))
	res, model := w.solver.Check(as, w.inputTerms())
	if len(w.stats.Samples) < 6 && (w.stats.Obligations%7 == 1) {
		w.stats.Samples = append(w.stats.Samples, Sample{Case: w.caseString(), PathConds: len(w.pc), Obligation: msg, Term: c.str(4), Result: res})
	}
	switch res {
	case "unsat":
		w.stats.Discharged++
	case "sat":
		// prefer a small-integer model for real inputs (exact native replay)
		if m2 := w.smallModel(as); m2 != nil {
			model = m2
		}
		w.reportViolation("assert", msg, model)
	default:
		w.ex.addInconclusive(fmt.Sprintf("solver %s on obligation %q (%s)", res, msg, lastSolverError), w.caseString())
	}
	// continue under the assumption that it holds (avoid cascades)
	if w.feasible(c) {
		w.addPC(c)
	} else {
		panic(pathEnd{"assertion fails on the whole path"})
	}
}

// smallBox constrains every real input to an integer in [-4,4].
func (w *Worker) smallBox() []*Term {
	var extra []*Term
	for _, in := range w.inputs {
		if in.T.Sort.K == SReal {
			var alts []*Term
			for k := -4; k <= 4; k++ {
				alts = append(alts, w.tt.Eq(in.T, w.tt.Real(float64(k))))
			}
			extra = append(extra, w.tt.Or(alts...))
		}
	}
	return extra
}

func (w *Worker) smallModel(as []*Term) Model {
	extra := w.smallBox()
	if len(extra) == 0 {
		return nil
	}
	res, m := w.solver.Check(append(append([]*Term(nil), as...), extra...), w.inputTerms())
	if res == "sat" {
		return m
	}
	return nil
}

// ---- tape ----

type Tape struct {
	Harness string             `json:"harness"`
	Choose  map[string]int64   `json:"choose"`
	Ints    map[string]int64   `json:"ints"`
	Uints   map[string]uint64  `json:"uints"`
	Floats  map[string]string  `json:"floats"`
	FBits   map[string]uint64  `json:"fbits,omitempty"`
	Msg     string             `json:"msg,omitempty"`
	Sched   bool               `json:"sched,omitempty"`
	Pkg     string             `json:"pkg"`
	Tags    string             `json:"tags"`
	Model   string             `json:"model"`
	Params  map[string]int     `json:"params"`
}

func (w *Worker) buildTape(m Model) *Tape {
	t := &Tape{Sched: w.schedUsed, Harness: w.ex.name, Choose: map[string]int64{}, Ints: map[string]int64{}, Uints: map[string]uint64{}, Floats: map[string]string{}, FBits: map[string]uint64{}}
	for _, c := range w.chooses {
		t.Choose[c.Name] = c.Val
	}
	for _, in := range w.inputs {
		v, ok := m[in.T.Name]
		if !ok {
			continue
		}
		switch in.T.Sort.K {
		case SBool:
			if v == "true" {
				t.Ints[in.Name] = 1
			} else {
				t.Ints[in.Name] = 0
			}
		case SBV:
			u, _ := modelBV(v)
			if in.Kind == "uint" || in.Kind == "byte" {
				t.Uints[in.Name] = u
				t.Ints[in.Name] = int64(u)
			} else {
				t.Ints[in.Name] = signExt(u, in.T.Sort.W)
			}
		case SReal:
			f, _ := modelReal(v)
			t.Floats[in.Name] = strconv.FormatFloat(f, 'g', -1, 64)
		case SFP:
			f := modelFP(v)
			t.Floats[in.Name] = strconv.FormatFloat(f, 'g', -1, 64)
			if in.T.Sort.W == 32 {
				t.FBits[in.Name] = uint64(math.Float32bits(float32(f)))
			} else {
				t.FBits[in.Name] = math.Float64bits(f)
			}
		}
	}
	return t
}

func modelFP(v string) float64 {
	// (fp #b0 #b... #x...) or (_ +zero 11 53) etc.
	toks := tokenize(v)
	if len(toks) >= 5 && toks[1] == "fp" {
		s, _ := modelBV(toks[2])
		e, _ := modelBV(toks[3])
		m, _ := modelBV(toks[4])
		eb := len(toks[3]) - 2
		if strings.HasPrefix(toks[3], "#x") {
			eb *= 4
		}
		if eb == 8 {
			return float64(float32frombits(uint32(s<<31 | e<<23 | m)))
		}
		return float64frombits(s<<63 | e<<52 | m)
	}
	if len(toks) >= 3 && toks[1] == "_" {
		switch toks[2] {
		case "+zero":
			return 0
		case "-zero":
			return negZero()
		case "+oo":
			return inf(1)
		case "-oo":
			return inf(-1)
		case "NaN":
			return nan()
		}
	}
	return 0
}

// ---- helpers about types used by several files ----

func deref(t types.Type) types.Type {
	if p, ok := t.Underlying().(*types.Pointer); ok {
		return p.Elem()
	}
	panic(fmt.Sprintf("deref of non-pointer %v", t))
}

type obsRec struct {
	name string
	v    Value
}

// maybeWitness records a model of this completed path (inputs and observed
// values) for native cross-validation; a few per harness.
func (w *Worker) maybeWitness() {
	e := w.ex
	e.mu.Lock()
	n := len(e.witnesses)
	e.mu.Unlock()
	if n >= e.cfg.Witnesses || w.randSeq > 0 || w.poisoned {
		return
	}
	var obsTerms []*Term
	for _, o := range w.observes {
		if t, ok := o.v.(*Term); ok && !t.IsConst() {
			obsTerms = append(obsTerms, t)
		}
	}
	want := append(w.inputTerms(), obsTerms...)
	// prefer small integers for real inputs: the native run is then exact
	// (a model with values like 1/3 makes a float32 kernel differ from its
	// float64-evaluated oracle by a rounding, which is not a translator error)
	res, m := "", Model(nil)
	if extra := w.smallBox(); extra != nil {
		res, m = w.solver.Check(append(append([]*Term(nil), w.pc...), extra...), want)
	}
	if res != "sat" || m == nil {
		res, m = w.solver.Check(w.pc, want)
	}
	if res != "sat" || m == nil {
		return
	}
	tape := w.buildTape(m)
	exp := map[string]string{}
	for _, o := range w.observes {
		switch v := o.v.(type) {
		case *Term:
			var s string
			if v.IsConst() {
				s = constString(v)
			} else {
				s = modelString(v, m[strings.Trim(v.ref(), "|")])
			}
			if s != "" {
				exp[o.name] = s
			}
		case StrV:
			if v.Sym == nil {
				exp[o.name] = fmt.Sprintf("%q", v.S)
			}
		}
	}
	e.mu.Lock()
	if len(e.witnesses) < e.cfg.Witnesses {
		e.witnesses = append(e.witnesses, Witness{Tape: tape, Expect: exp, Case: w.caseString()})
	}
	e.mu.Unlock()
}

func constString(t *Term) string {
	switch t.Sort.K {
	case SBool:
		return fmt.Sprintf("%v", t.B)
	case SBV:
		return fmt.Sprintf("%d", signExt(t.U, t.Sort.W))
	default:
		return fmt.Sprintf("%g", t.F)
	}
}

func modelString(t *Term, v string) string {
	if v == "" {
		return ""
	}
	switch t.Sort.K {
	case SBool:
		return v
	case SBV:
		u, ok := modelBV(v)
		if !ok {
			return ""
		}
		return fmt.Sprintf("%d", signExt(u, t.Sort.W))
	case SReal:
		f, ok := modelReal(v)
		if !ok {
			return ""
		}
		return fmt.Sprintf("%g", f)
	case SFP:
		return fmt.Sprintf("%g", modelFP(v))
	}
	return ""
}
